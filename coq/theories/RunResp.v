(* RunResp.v — executable entry points for C01 / C03 (and the response half of C09): a generated
   program, one of its operations, and payload vectors with what the compiled consumer crate did. *)
From GC Require Import Base Rust Json TypeExpr Schema Query Attrs Codegen Serde RunSerde RunGen Conform Compose Exact.

Inductive pelem := PKey (k : string) | PIdx (n : N).

Record vector := mkV {
  v_label : string;                 (* how the harness made the payload *)
  v_payload : json;
  v_obs : sobs;
  v_probe : option (list pelem * string)     (* a position in the output and the string expected there *)
}.

Record rcase := mkR {
  r_g : gcase;
  r_op : string;
  r_with_ser : bool;
  r_vectors : list vector
}.
Definition case := rcase.

Definition model_schema (c : rcase) : option aschema :=
  match schema_of_sdl (g_schema (r_g c)) with Ok s => Some s | _ => None end.

(* the items of the operation's module, from the MODEL of the generator *)
Definition model_items (c : rcase) : option (list ritem) :=
  match gen_model (r_g c) with
  | GOk ms => option_map m_items (find (fun m => String.eqb (m_operation_name m) (r_op c)) ms)
  | _ => None
  end.

Definition corr_gen (c : rcase) : bool := gen_corr (r_g c).

Definition corr_serde (c : rcase) : bool :=
  match model_items c with
  | None => match r_vectors c with [] => true | _ => false end   (* a rejected program has no vectors *)
  | Some items =>
      (* a module that rustc refuses is C02's subject: nothing to compare *)
      forallb (fun v => match v_obs v with
                        | SNoCompile => true
                        | _ => sobs_equiv (run_model items "ResponseData" (r_with_ser c) (v_payload v)) (v_obs v)
                        end) (r_vectors c)
  end.

Definition is_conforming (c : rcase) (v : vector) : bool :=
  match model_schema c with
  | Some s => conforms s (g_doc (r_g c)) (r_op c) (v_payload v)
  | None => false
  end.

(* the harness's labels agree with the specification: what it calls conforming conforms, what it
   calls corrupted does not *)
Definition corr_spec (c : rcase) : bool :=
  forallb (fun v =>
    if String.eqb (v_label v) "conforming" then is_conforming c v
    else if String.prefix "corrupt:" (v_label v) || String.prefix "typename:unknown" (v_label v)
    then negb (is_conforming c v)
    else true) (r_vectors c).

(* C01: every conforming payload is accepted and re-serialises without loss *)
Definition prop_c01 (c : rcase) : bool :=
  match model_schema c with
  | None => true
  | Some s =>
      forallb (fun v =>
        if is_conforming c v then
          match v_obs v with
          | SOk out => lossless s (g_doc (r_g c)) (r_op c) (v_payload v) out
          | SOkNoSer => negb (r_with_ser c)
          | SNoCompile => true
          | _ => false
          end
        else true) (r_vectors c)
  end.

Fixpoint jget (p : list pelem) (j : json) : option json :=
  match p with
  | [] => Some j
  | PKey k :: r => match j with JObj m => match obj_get k m with Some x => jget r x | None => None end | _ => None end
  | PIdx n :: r => match j with JArr l => match nth_error l (N.to_nat n) with Some x => jget r x | None => None end | _ => None end
  end.

(* C03: single-point corruptions are rejected; unknown __typename only with the other-variant
   option; a known __typename never yields another variant *)
Definition prop_c03 (c : rcase) : bool :=
  forallb (fun v =>
    let l := v_label v in
    match v_obs v with SNoCompile => true | _ =>
    if String.prefix "corrupt:" l then
      if is_conforming c v then true (* not a corruption after all: reported by corr_spec *)
      else match v_obs v with SErr => true | _ => false end
    else if String.prefix "typename:unknown" l then
      if o_other_variant (g_opts (r_g c))
      then match v_obs v with SOk _ | SOkNoSer => true | _ => false end
      else match v_obs v with SErr => true | _ => false end
    else if String.prefix "typename:swapped" l then
      match v_obs v, v_probe v with
      | SErr, _ | SOkNoSer, _ => true
      | SOk out, Some (p, expected) => match jget p out with Some (JStr x) => String.eqb x expected | _ => false end
      | _, _ => false
      end
    else true end) (r_vectors c).

(* known class: the operation needs GraphQL field merging (a response key collected twice) *)
Definition in_field_merging (c : rcase) : bool :=
  match model_schema c with
  | Some s => needs_merging s (g_doc (r_g c)) (r_op c)
  | None => false
  end.
Definition known_field_merging (c : rcase) : bool := negb (in_field_merging c).

(* ---------- certificate: the checker of Compose.v accepts the model's items for this operation
   with a fuel bound below the one the run uses; then Compose.certified_accepts_all covers EVERY
   conforming payload of the operation, not only the vectors of the run *)
Definition certified (c : rcase) : bool :=
  match model_schema c, model_items c with
  | Some s, Some items =>
      match certify s RunSerde.henv items (g_doc (r_g c)) (r_op c) with
      | Some B => Nat.leb B FUEL
      | None => false
      end
  | _, _ => false
  end.

(* the theorem's prediction against the compiled crate: a certified operation accepts every
   conforming vector (a failure here would mean Serde.v or Conform.v is wrong) *)
Definition corr_cert (c : rcase) : bool :=
  negb (certified c) ||
  forallb (fun v => negb (is_conforming c v) ||
                    match v_obs v with SOk _ | SOkNoSer | SNoCompile => true | _ => false end) (r_vectors c).

(* listed for the evidence: operations NOT covered by the certificate *)
Definition info_uncertified (c : rcase) : bool := certified c.

(* ---------- C03 by certificate (Exact.certified_rejects): for a certified operation every payload
   that violates `enforced` is rejected, whatever its size.  Per case: (a) the theorem's prediction
   against the compiled crate: whatever the crate accepted satisfies `enforced`; (b) which of the
   run's corruptions are covered by the theorem (they violate `enforced`). *)
Definition exact_certified (c : rcase) : bool :=
  certified c &&
  match model_items c with
  | Some items => o_other_variant (g_opts (r_g c)) || env_no_other items
  | None => false
  end.

Definition enforced_on (c : rcase) (j : json) : bool :=
  match model_schema c with
  | Some s => enforced s (g_doc (r_g c)) (r_op c) (o_other_variant (g_opts (r_g c))) 60 j
  | None => true
  end.

Definition corr_exact (c : rcase) : bool :=
  negb (exact_certified c) ||
  forallb (fun v => match v_obs v with
                    | SOk _ | SOkNoSer => enforced_on c (v_payload v)
                    | _ => true end) (r_vectors c).

(* corrupted vectors whose rejection is NOT implied by the theorem (the operation is not certified,
   or the corruption does not touch what the generated types enforce) *)
Definition info_rejection_not_proved (c : rcase) : bool :=
  forallb (fun v => negb (String.prefix "corrupt:" (v_label v)) ||
                    (exact_certified c && negb (enforced_on c (v_payload v)))) (r_vectors c).
