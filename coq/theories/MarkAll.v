(* MarkAll.v — C14 invariants for ALL programs: only `warn` ever emits a deprecation mark, only `deny` ever
   omits a field; at every position the expansion of any selection reaches. *)
From GC Require Import Base Rust Json TypeExpr Heck Strs Naming NamingProofs Enums Schema Query Attrs Dfs Codegen StrategyAll InvariantAll.

Definition unmarked (x : option rfield) : Prop :=
  match x with Some f => f_deprecated f = None | None => True end.
Definition present (x : option rfield) : Prop := x <> None.

Lemma render_field_unmarked o a b ft quals fl d bx : strategy o <> DWarn -> unmarked (render_field o a b ft quals fl d bx).
Proof.
  intros Hs. unfold unmarked. destruct (render_field o a b ft quals fl d bx) as [f|] eqn:E; [|exact I].
  unfold render_field in E. destruct d as [m|]; destruct (strategy o); try discriminate E; try (exfalso; apply Hs; reflexivity);
    inversion E; reflexivity.
Qed.

Lemma render_field_present o a b ft quals fl d bx : strategy o <> DDeny -> present (render_field o a b ft quals fl d bx).
Proof.
  intros Hs. unfold present, render_field. destruct d as [m|]; destruct (strategy o); try discriminate; exfalso; apply Hs; reflexivity.
Qed.

Theorem only_warn_marks s frs o fuel c sels sid t p c' : strategy o <> DWarn ->
  fields_all unmarked c -> calc s frs o fuel c sels sid t p = Some c' -> fields_all unmarked c'.
Proof.
  intros Hs. rewrite calcG_is_calc.
  exact (proj1 (calcG_inv s frs o (render_field o) (o_other_variant o) unmarked
                          (fun a x c0 d e f h => render_field_unmarked o a (kw x) c0 d e f h Hs) fuel) c sels sid t p c').
Qed.

Theorem only_deny_omits s frs o fuel c sels sid t p c' : strategy o <> DDeny ->
  fields_all present c -> calc s frs o fuel c sels sid t p = Some c' -> fields_all present c'.
Proof.
  intros Hs. rewrite calcG_is_calc.
  exact (proj1 (calcG_inv s frs o (render_field o) (o_other_variant o) present
                          (fun a x c0 d e f h => render_field_present o a (kw x) c0 d e f h Hs) fuel) c sels sid t p c').
Qed.
