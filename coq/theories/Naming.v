(* Naming.v — model of codegen/shared.rs (keyword_replace, field_rename_annotation) and of the
   identifier / rename computation at every name position:
     response field & alias  codegen/selection.rs:532 field_name + ExpandedField::render
     variable                codegen.rs:142-145
     input-object field      codegen/inputs.rs:44-46
     @oneOf member           codegen/inputs.rs:95-98
     enum value              codegen/enums.rs:32-59
   The keyword table is a PARAMETER here; Properties instantiate it with the translated table.
   MODEL ONLY. *)
From GC Require Import Base Heck.

(* core::slice::binary_search_by as of the pinned std (branch-free halving loop) *)
Fixpoint bs_loop (fuel : nat) (tbl : list string) (w : string) (base size : nat) : nat :=
  match fuel with
  | O => base
  | S f =>
      if Nat.leb size 1 then base
      else
        let half := Nat.div2 size in
        let mid := base + half in
        let greater := match String.compare (nth mid tbl "") w with Gt => true | _ => false end in
        bs_loop f tbl w (if greater then base else mid) (size - half)
  end.

Definition bsearch (tbl : list string) (w : string) : option nat :=
  match tbl with
  | [] => None
  | _ =>
      let base := bs_loop (List.length tbl) tbl w 0 (List.length tbl) in
      if String.eqb (nth base tbl "") w then Some base else None
  end.

Definition keyword_replace (tbl : list string) (w : string) : string :=
  match bsearch tbl w with
  | Some i => nth i tbl "" ++ "_"
  | None => w
  end.

(* field_rename_annotation graphql_name rust_name *)
Definition rename_annotation (graphql_name rust_name : string) : option string :=
  if String.eqb graphql_name rust_name then None else Some graphql_name.

(* PFragStruct / PFragVariant: the flattened member that carries a named-fragment spread, in a struct and in
   the struct of a union / interface variant *)
Inductive position := PResponse | PAlias | PVariable | PInputField | POneOf | PEnumValue | PFragStruct | PFragVariant.

(* (identifier emitted, rename attribute) for a struct-field-like position *)
Definition field_names (tbl : list string) (snake : string -> string) (name : string) : string * option string :=
  let safe := keyword_replace tbl (snake name) in
  (safe, rename_annotation name safe).

(* @oneOf member: the rename is computed against the escaped variant name (inputs.rs:98,
   after the fix recorded in known_findings.json; before it the UNESCAPED name was compared,
   which lost the rename for the member `Self`) *)
Definition oneof_names (tbl : list string) (camel : string -> string) (name : string) : string * option string :=
  let safe := keyword_replace tbl (camel name) in
  (safe, rename_annotation name safe).

(* the pre-fix computation, kept so that the regression is a theorem (C11_oneof_prefix_refuted) *)
Definition oneof_names_prefix (tbl : list string) (camel : string -> string) (name : string) : string * option string :=
  let variant := camel name in
  (keyword_replace tbl variant, rename_annotation name variant).

(* enum value: variant identifier and the wire string used in both hand-written impls *)
Definition enum_variant_ident (tbl : list string) (norm_rust : bool) (camel : string -> string) (v : string) : string :=
  (* normalize first, then escape (enums.rs, after the fix recorded in known_findings.json) *)
  keyword_replace tbl (if norm_rust then camel v else v).

(* what serde puts on the wire for a field / variant with these attributes *)
Definition wire_key (p : string * option string) : string :=
  match snd p with Some r => r | None => fst p end.

(* Reference: strict and reserved keywords of the 2015, 2018 and 2021 editions
   (https://doc.rust-lang.org/reference/keywords.html) that are identifier-shaped. *)
Definition reference_keywords : list string :=
  [ (* strict, all editions *)
    "as"; "break"; "const"; "continue"; "crate"; "else"; "enum"; "extern"; "false"; "fn"; "for";
    "if"; "impl"; "in"; "let"; "loop"; "match"; "mod"; "move"; "mut"; "pub"; "ref"; "return";
    "self"; "Self"; "static"; "struct"; "super"; "trait"; "true"; "type"; "unsafe"; "use";
    "where"; "while";
    (* strict, 2018+ *)
    "async"; "await"; "dyn";
    (* reserved *)
    "abstract"; "become"; "box"; "do"; "final"; "macro"; "override"; "priv"; "typeof"; "unsized";
    "virtual"; "yield"; "try" ].
