(* TypeExprProofs.v — proofs about TypeExpr.v (C13). *)
From GC Require Import Base Rust TypeExpr.

Lemma loop_app a b acc nn : dec_loop (a ++ b) acc nn =
  match dec_loop a acc nn with None => None | Some (acc', nn') => dec_loop b acc' nn' end.
Proof.
  revert acc nn. induction a as [|q a IH]; intros acc nn; cbn [dec_loop app]; [reflexivity|].
  destruct q; destruct nn; cbn; auto.
Qed.

Lemma loop_spec t : wf_gtype t = true ->
  dec_loop (rev (quals_sdl t)) (RNamed (gname t)) false =
    Some (match t with GNonNull u => (core u, true) | _ => (core t, false) end).
Proof.
  induction t as [n|u IH|u IH]; intros Hwf; cbn [quals_sdl rev gname].
  - reflexivity.
  - cbn in Hwf. rewrite loop_app, (IH Hwf). destruct u; cbn; reflexivity.
  - cbn in Hwf. destruct u as [n|v|v]; try discriminate.
    + cbn. reflexivity.
    + rewrite loop_app, (IH Hwf). cbn. reflexivity.
Qed.

Theorem decorate_is_spec t :
  wf_gtype t = true -> decorate (gname t) (quals_sdl t) = Some (spec_rust t).
Proof. intros H. unfold decorate. rewrite (loop_spec t H). destruct t; reflexivity. Qed.

Theorem quals_json_is_sdl t : quals_json (typeref_of t) = Some (quals_sdl t, gname t).
Proof.
  induction t as [n|u IH|u IH]; cbn [typeref_of quals_json quals_sdl gname].
  - reflexivity.
  - rewrite IH. reflexivity.
  - rewrite IH. reflexivity.
Qed.

Corollary decorate_json_is_spec t : wf_gtype t = true ->
  match quals_json (typeref_of t) with
  | Some (q, n) => decorate n q = Some (spec_rust t)
  | None => False
  end.
Proof. intros H. rewrite quals_json_is_sdl. exact (decorate_is_spec t H). Qed.

(* double `!` is the only way decorate can panic *)
Theorem decorate_total t : wf_gtype t = true -> decorate (gname t) (quals_sdl t) <> None.
Proof. intros H. rewrite decorate_is_spec by exact H. discriminate. Qed.

(* the headline clauses of the property *)
Lemma spec_nonnull t : spec_rust (GNonNull t) = core t.  Proof. reflexivity. Qed.
Lemma spec_nullable_named n : spec_rust (GNamed n) = ROption (RNamed n).  Proof. reflexivity. Qed.
Lemma spec_nullable_list t : spec_rust (GList t) = ROption (RVec (spec_rust t)).
Proof. destruct t; reflexivity. Qed.
Lemma core_list t : core (GList t) = RVec (spec_rust t).
Proof. destruct t; reflexivity. Qed.

(* Option count: the nullable spec has exactly one more Option at the top than the non-null one *)
Lemma spec_removes_one_option t : match t with GNonNull _ => True | _ => spec_rust t = ROption (spec_rust (GNonNull t)) end.
Proof. destruct t; exact I || reflexivity. Qed.

Example ex_doc : decorate "Int" (quals_sdl (GNonNull (GList (GList (GNonNull (GNamed "Int"))))))
  = Some (RVec (ROption (RVec (RNamed "Int")))).
Proof. reflexivity. Qed.
