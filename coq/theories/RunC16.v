(* RunC16.v — executable entry points for the C16 correspondence check. *)
From GC Require Import Base Rust Json Enums Serde TypeExpr RunSerde.
From GC.Gen Require Import LibTypes.

Inductive hobs := HOk (s : option string) | HErr | HSplit.   (* HOk None = Ok(None) of the option helper *)

Inductive case :=
(* direct call of graphql_client::serde_with::<helper> on a JSON value *)
| CHelper (optional : bool) (input : json) (obs : hobs)
(* which helper the generator attached to a response field of this GraphQL type, and the
   field's Rust type as emitted *)
| CAttach (t : gtype) (obs_helper : option string) (obs_default : bool) (obs_type : option rtype)
(* compiled: an ID-typed field at a position (0 plain, 1 inside a flattened fragment, 2 inside a
   variant), given `input` (None = key absent); observation = the field in the re-serialised output *)
| CField (nullable : bool) (position : N) (input : option json) (obs : sobs)
(* compiled: a list-of-ID field `[ID!]!` (outer_null = inner_null = false), `[ID]` (both true), ... *)
| CList (outer_null inner_null : bool) (input : option json) (obs : sobs)
(* generic: the compiled module as items, a payload, and what real serde did with it *)
| CSerde (items : list ritem) (root : string) (with_ser : bool) (payload : json) (obs : sobs).

(* ---- model *)
Definition helper_model (optional : bool) (input : json) : hobs :=
  let fld := mkField "x" (if optional then ROption (RNamed "String") else RNamed "String") None false false None
                     (Some (if optional then "deserialize_option_id" else "deserialize_id")) false in
  match deser henv FUEL [IStruct "S" [] None [fld]] (RNamed "S") (JObj [("x", input)]) with
  | Some (VStruct [(_, VStr s)]) => HOk (Some s)
  | Some (VStruct [(_, VSome (VStr s))]) => HOk (Some s)
  | Some (VStruct [(_, VNone)]) => HOk None
  | _ => HErr
  end.

(* codegen/selection.rs ExpandedField::render: helper by type NAME, list-ness and nullability *)
Definition attach_model (t : gtype) : option string * bool :=
  let qs := quals_sdl t in
  if String.eqb (gname t) "ID" then
    if quals_indirected qs then (Some "deserialize_id_list", quals_optional qs)
    else if existsb (qual_eqb QRequired) qs then (Some "deserialize_id", false)
    else (Some "deserialize_option_id", true)
  else (None, false).

Definition hobs_eqb (a b : hobs) : bool :=
  match a, b with
  | HOk x, HOk y => opt_eqb String.eqb x y
  | HErr, HErr | HSplit, HSplit => true
  | _, _ => false
  end.

Definition corr (c : case) : bool :=
  match c with
  | CHelper o i obs => hobs_eqb (helper_model o i) obs
  | CAttach t h d ty => opt_eqb String.eqb (fst (attach_model t)) h && Bool.eqb (snd (attach_model t)) d &&
                        opt_eqb rtype_eqb (decorate (gname t) (quals_sdl t)) ty
  | CField _ _ _ _ | CList _ _ _ _ => true      (* covered by the CSerde case of the same vector *)
  | CSerde items root ws payload obs => sobs_equiv (run_model items root ws payload) obs
  end.

(* ---- the property, on observations alone *)
Definition id_spec (nullable : bool) (input : option json) : option json :=   (* None = must be rejected *)
  match input with
  | Some (JStr s) => Some (JStr s)
  | Some (JInt z) => if in_i64 z then Some (JStr (decimal z)) else None
  | Some JNull | None => if nullable then Some JNull else None
  | Some _ => None
  end.

Definition prop_helper (c : case) : bool :=
  match c with
  | CHelper o i obs =>
      match id_spec o (Some i), obs with
      | Some (JStr s), HOk (Some s') => String.eqb s s'
      | Some JNull, HOk None => true
      | None, HErr => true
      | _, _ => false
      end
  | _ => true
  end.

(* the helper's result type must BE the field's type: String / Option<String> / any
   Option-Vec nesting of String (IdContainer); and a nullable field must carry `default`
   (absence -> None), a non-null one must not *)
Fixpoint id_container (t : rtype) : bool :=
  match t with RNamed n => String.eqb n "ID" | ROption u | RVec u => id_container u | _ => false end.
Definition helper_fits (h : string) (t : rtype) : bool :=
  if String.eqb h "deserialize_id" then rtype_eqb t (RNamed "ID")
  else if String.eqb h "deserialize_option_id" then rtype_eqb t (ROption (RNamed "ID"))
  else if String.eqb h "deserialize_id_list" then id_container t
  else false.
Definition prop_attach (c : case) : bool :=
  match c with
  | CAttach t h d ty =>
      if String.eqb (gname t) "ID" then
        match h, ty with
        | Some hh, Some rt => helper_fits hh rt && Bool.eqb d (match rt with ROption _ => true | _ => false end)
        | _, _ => false
        end
      else match h with None => negb d | Some _ => false end          (* never on non-ID fields *)
  | _ => true
  end.

Definition prop_field (c : case) : bool :=
  match c with
  | CField nullable _ input obs =>
      match id_spec nullable input, obs with
      | Some j, SOk j' => json_eqb j j'
      | None, SErr => true
      | _, _ => false
      end
  | _ => true
  end.

Definition list_spec (outer_null inner_null : bool) (input : option json) : option json :=
  match input with
  | Some (JArr l) =>
      match map_opt (fun x => id_spec inner_null (Some x)) l with Some ys => Some (JArr ys) | None => None end
  | Some JNull | None => if outer_null then Some JNull else None
  | Some _ => None
  end.
Definition prop_list (c : case) : bool :=
  match c with
  | CList o i input obs =>
      match list_spec o i input, obs with
      | Some j, SOk j' => json_eqb j j'
      | None, SErr => true
      | _, _ => false
      end
  | _ => true
  end.
