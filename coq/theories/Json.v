(* Json.v — JSON values as serde_json sees them. *)
From GC Require Import Base.

Inductive json :=
| JNull
| JBool (b : bool)
| JInt (z : Z)              (* integral number *)
| JFrac (repr : string)     (* non-integral number, carried as its text; never inspected *)
| JStr (s : string)
| JArr (l : list json)
| JObj (m : list (string * json)).

Fixpoint json_eqb (a b : json) {struct a} : bool :=
  match a, b with
  | JNull, JNull => true
  | JBool x, JBool y => Bool.eqb x y
  | JInt x, JInt y => Z.eqb x y
  | JFrac x, JFrac y => String.eqb x y
  | JStr x, JStr y => String.eqb x y
  | JArr x, JArr y =>
      (fix go (l1 l2 : list json) : bool :=
         match l1, l2 with
         | [], [] => true
         | p :: r, q :: s => json_eqb p q && go r s
         | _, _ => false
         end) x y
  | JObj x, JObj y =>
      (fix go (l1 l2 : list (string * json)) : bool :=
         match l1, l2 with
         | [], [] => true
         | (k, p) :: r, (k', q) :: s => String.eqb k k' && json_eqb p q && go r s
         | _, _ => false
         end) x y
  | _, _ => false
  end.

Definition i64_min : Z := (-9223372036854775808)%Z.
Definition i64_max : Z := 9223372036854775807%Z.
Definition in_i64 (z : Z) : bool := (i64_min <=? z)%Z && (z <=? i64_max)%Z.
Definition i32_min : Z := (-2147483648)%Z.
Definition i32_max : Z := 2147483647%Z.
Definition in_i32 (z : Z) : bool := (i32_min <=? z)%Z && (z <=? i32_max)%Z.
Definition u64_max : Z := 18446744073709551615%Z.

Definition is_null (j : json) : bool := match j with JNull => true | _ => false end.

Fixpoint obj_get (k : string) (m : list (string * json)) : option json :=
  match m with [] => None | (k', v) :: r => if String.eqb k k' then Some v else obj_get k r end.
