(* RunC11.v — executable entry points for the C11 correspondence check. *)
From GC Require Import Base Rust Heck Naming.
From GC.Gen Require Import Keywords.

Inductive obs :=
| OField (ident : string) (rename : option string)      (* struct field / @oneOf variant *)
| OEnum (ident : string) (ser_wire : option string) (de_ident : option string)
        (* variant ident; wire string the Serialize arm for that ident yields;
           ident the Deserialize arm for the GraphQL name yields *)
| OPanic                                                  (* generation panicked (with a message) *)
| OUnparsable                                             (* tokens were produced but are not Rust items *)
| OMissing.                                               (* generation failed / item not found *)

Record case := mkCase {
  c_pos : position;
  c_name : string;           (* the GraphQL name *)
  c_norm_rust : bool;
  c_obs : obs;
  c_snake : string;          (* heck's own to_snake_case of the name (validates Heck.v) *)
  c_camel : string
}.

Definition tbl := rust_keywords.

Definition obs_eqb (a b : obs) : bool :=
  match a, b with
  | OField i r, OField i' r' => String.eqb i i' && opt_eqb String.eqb r r'
  | OEnum i s d, OEnum i' s' d' => String.eqb i i' && opt_eqb String.eqb s s' && opt_eqb String.eqb d d'
  | OPanic, OPanic | OMissing, OMissing | OUnparsable, OUnparsable => true
  | _, _ => false
  end.

Definition model_ident (c : case) : string * option string :=
  match c_pos c with
  | PResponse | PAlias | PVariable | PInputField => field_names tbl to_snake_case (c_name c)
  (* a spread member: the fragment's name in snake_case, escaped; flattened, so no wire key and no rename *)
  | PFragStruct | PFragVariant => (keyword_replace tbl (to_snake_case (c_name c)), None)
  | POneOf => oneof_names tbl to_upper_camel_case (c_name c)
  | PEnumValue => (enum_variant_ident tbl (c_norm_rust c) to_upper_camel_case (c_name c), None)
  end.

Definition model (c : case) : obs :=
  let p := model_ident c in
  if negb (pm2_ident_ok (fst p)) then OPanic
  else if String.eqb (fst p) "_" || mem_str (fst p) reference_keywords then OUnparsable
  else
    match c_pos c with
    | PEnumValue => OEnum (fst p) (Some (c_name c)) (Some (fst p))
    | _ => OField (fst p) (snd p)
    end.

Definition corr (c : case) : bool := obs_eqb (model c) (c_obs c).

(* Heck.v against the real heck *)
Definition heck (c : case) : bool :=
  String.eqb (to_snake_case (c_name c)) (c_snake c) &&
  String.eqb (to_upper_camel_case (c_name c)) (c_camel c).

(* property oracle on the observation alone:
   (a) the wire key / wire string is exactly the GraphQL name;
   (b) the emitted identifier is identifier-shaped and not a (reference) keyword —
       necessary for the emitted item to compile. *)
Definition prop_wire (c : case) : bool :=
  match c_obs c with
  | OField i r => match c_pos c with
                 | PFragStruct | PFragVariant => match r with None => true | Some _ => false end   (* flattened: no key of its own *)
                 | _ => String.eqb (wire_key (i, r)) (c_name c)
                 end
  | OEnum i s d => opt_eqb String.eqb s (Some (c_name c)) && opt_eqb String.eqb d (Some i)
  | OPanic | OMissing | OUnparsable => false
  end.
Definition prop_ident (c : case) : bool :=
  match c_obs c with
  | OField i _ | OEnum i _ _ => ident_shaped i && negb (mem_str i reference_keywords)
  | OPanic | OMissing | OUnparsable => false
  end.

(* known classes *)
(* K5: the snake_case (or camel) form of the name is not an identifier: "_" -> "", "_1" -> "1" *)
Definition in_bad_ident (c : case) : bool := negb (ident_shaped (fst (model_ident c))).
Definition known_bad_case_ident (c : case) : bool := negb (in_bad_ident c).
