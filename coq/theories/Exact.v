(* Exact.v — C03, composition by the same certificate as C01 (Compose.sel_need), in the other
   direction: for any items the checker accepts, every payload that the deserializer ACCEPTS
   satisfies `wobj`, the part of conformance the generated types enforce (null only at nullable
   positions, arrays exactly at list positions, scalars of the right JSON kind, required keys
   present, `__typename` naming a possible type unless the catch-all variant exists).  Hence every
   payload violating `wobj` — in particular each single-point corruption of C03 — is rejected.
   `wobj` is executable; it is evaluated per case as well (RunResp.corr_exact). *)
From GC Require Import Base Rust Json TypeExpr TypeExprProofs Schema Query Enums Serde SerdeLemmas Conform RespProofs Compose.

(* ---------- the enforced part of conformance *)
Fixpoint wtype (leaf : json -> bool) (cnull : bool) (nullable : bool) (t : gtype) (j : json) {struct t} : bool :=
  match t with
  | GNonNull u => wtype leaf cnull false u j
  | GNamed _ => if is_null j then nullable || cnull else leaf j
  | GList u =>
      if is_null j then nullable
      else match j with JArr l => forallb (wtype leaf cnull true u) l | _ => false end
  end.

Section Weak.
  Variable s : aschema.
  Variable frags : list (string * (string * list sel)).
  (* fragments_other_variant *)
  Variable other : bool.

  Definition wscalar (n : string) (j : json) : bool :=
    if String.eqb n "Int" then match j with JInt z => in_i64 z | _ => false end
    else if String.eqb n "Float" then match j with JInt _ | JFrac _ => true | _ => false end
    else if String.eqb n "String" then match j with JStr _ => true | _ => false end
    else if String.eqb n "Boolean" then match j with JBool _ => true | _ => false end
    else if String.eqb n "ID" then id_leaf j
    else true.

  (* a custom scalar is the consumer's type: it may take null *)
  Definition custom_scalar (n : string) : bool :=
    match find_kind_sdl s n with
    | Some KScalar => negb (mem_str n ["Int"; "Float"; "String"; "Boolean"; "ID"])
    | _ => false
    end.

  Definition wleaf_of (rec : string -> list sel -> list (string * json) -> bool) (tn : string) (sub : list sel)
    : json -> bool :=
    match find_kind_sdl s tn with
    | Some KScalar => wscalar tn
    | Some KEnum => fun j => match j with JStr _ => true | _ => false end
    (* serde_json also reads a struct without flattened members from an array (positional form):
       not analysed, not excluded *)
    | Some KObject => fun j => match j with JObj m' => rec tn sub m' | JArr _ => true | _ => false end
    | Some KInterface | Some KUnion =>
        fun j => match j with
                 | JObj m' =>
                     match obj_get "__typename" m' with
                     | Some (JStr x) => if mem_str x (possible s tn) then rec x sub m' else other
                     | _ => false
                     end
                 | _ => false
                 end
    | _ => fun _ => false
    end.

  Definition wfield_ok (rec : string -> list sel -> list (string * json) -> bool) (rt : string)
             (m : list (string * json)) (fl : string * (string * list sel)) : bool :=
    let '(k, (n, sub)) := fl in
    if String.eqb n "__typename" then true
    else match field_def s rt n with
         | None => true
         | Some fd =>
             match obj_get k m with
             | None => top_nullable (fd_type fd)                 (* an absent key only where null is allowed *)
             | Some v => wtype (wleaf_of rec (gname (fd_type fd)) sub) (custom_scalar (gname (fd_type fd))) true (fd_type fd) v
             end
         end.

  Fixpoint wobj (fuel : nat) (rt : string) (sels : list sel) (m : list (string * json)) {struct fuel} : bool :=
    match fuel with
    | O => true
    | S f => forallb (wfield_ok (wobj f) rt m) (collected s frags rt sels)
    end.
End Weak.

(* unique keys at every level: what serde_json::Value guarantees, and what a struct demands *)
Fixpoint wfj (fuel : nat) (j : json) {struct fuel} : bool :=
  match fuel with
  | O => true
  | S f =>
      match j with
      | JArr l => forallb (wfj f) l
      | JObj m => nodup_str (map fst m) && forallb (fun e => wfj f (snd e)) m
      | _ => true
      end
  end.

Definition UK (j : json) : Prop := forall f, wfj f j = true.
Lemma UK_arr l x : UK (JArr l) -> In x l -> UK x.
Proof. intros H Hx f. specialize (H (S f)). cbn [wfj] in H. rewrite forallb_forall in H. exact (H x Hx). Qed.
Lemma UK_obj m : UK (JObj m) -> NoDup (map fst m) /\ forall k v, In (k, v) m -> UK v.
Proof.
  intros H. split.
  - specialize (H 1). cbn [wfj] in H. apply andb_true_iff in H. apply nodup_str_NoDup. exact (proj1 H).
  - intros k v Hin f. specialize (H (S f)). cbn [wfj] in H. apply andb_true_iff in H. destruct H as [_ H].
    rewrite forallb_forall in H. exact (H (k, v) Hin).
Qed.

(* ---------- the corruptions of C03 violate the enforced part, whatever the leaf *)
Lemma wtype_null_nonnull leaf t : wtype leaf false true (GNonNull t) JNull = false.
Proof. cbn [wtype]. induction t as [m|u IH|u IH]; cbn; auto. Qed.

Lemma wtype_non_list leaf c b t j : is_null j = false -> (forall l, j <> JArr l) -> wtype leaf c b (GList t) j = false.
Proof. intros Hn Hl. cbn [wtype]. rewrite Hn. destruct j; try reflexivity. exfalso. exact (Hl l eq_refl). Qed.

Lemma wscalar_int_kind j : (forall z, j <> JInt z) -> wscalar "Int" j = false.
Proof. intros H. destruct j; try reflexivity. exfalso. exact (H z eq_refl). Qed.
Lemma wscalar_string_kind j : (forall x, j <> JStr x) -> wscalar "String" j = false.
Proof. intros H. destruct j; try reflexivity. exfalso. exact (H s eq_refl). Qed.
Lemma wscalar_bool_kind j : (forall b, j <> JBool b) -> wscalar "Boolean" j = false.
Proof. intros H. destruct j; try reflexivity. exfalso. exact (H b eq_refl). Qed.
Lemma wscalar_float_kind j : (forall z, j <> JInt z) -> (forall r, j <> JFrac r) -> wscalar "Float" j = false.
Proof. intros H1 H2. destruct j; try reflexivity; exfalso; [exact (H1 z eq_refl)|exact (H2 repr eq_refl)]. Qed.

(* ---------- type-expression layer, soundness direction: accepted => enforced part holds *)
Section TypeSound.
  Variables (henv env : list ritem) (n : string) (leaf : json -> bool) (cnull : bool).
  (* a property of payloads inherited by array elements (here: unique keys at every level) *)
  Variable P : json -> Prop.
  Hypothesis HP : forall l x, P (JArr l) -> In x l -> P x.
  Hypothesis Hleaf : forall F j, P j -> is_null j = false -> is_some (deser henv F env (RNamed n) j) = true -> leaf j = true.
  Hypothesis Hnull : cnull = false -> forall F, deser henv F env (RNamed n) JNull = None.

  Lemma null_is j : is_null j = true -> j = JNull.
  Proof. destruct j; try discriminate. reflexivity. Qed.

  Lemma sound_both t : wf_gtype t = true ->
    (forall F j, P j -> is_some (deser henv F env (spec_rust (rename t n)) j) = true -> wtype leaf cnull true t j = true) /\
    (match t with GNonNull _ => True | _ =>
       forall F j, P j -> is_some (deser henv F env (core (rename t n)) j) = true -> wtype leaf cnull false t j = true end).
  Proof.
    induction t as [m|u IH|u IH]; intros Hwf.
    - split.
      + intros F j Pj H. destruct F as [|F]; [discriminate|]. cbn [rename spec_rust core] in H.
        rewrite (deser_option henv env) in H. cbn [wtype]. destruct (is_null j) eqn:E; [reflexivity|].
        rewrite is_some_option_map in H. exact (Hleaf F j Pj E H).
      + intros F j Pj H. cbn [rename core] in H. cbn [wtype]. destruct (is_null j) eqn:E.
        * apply null_is in E. subst j. destruct cnull eqn:Ec; [reflexivity|]. rewrite (Hnull eq_refl F) in H. discriminate.
        * exact (Hleaf F j Pj E H).
    - cbn [wf_gtype] in Hwf. destruct (IH Hwf) as [IHs _].
      assert (Hcore : forall F j, P j -> is_some (deser henv F env (core (rename (GList u) n)) j) = true ->
                wtype leaf cnull false (GList u) j = true).
      { intros F j Pj H. cbn [rename] in H. rewrite core_list in H. destruct F as [|F]; [discriminate|].
        rewrite (deser_vec henv env) in H. cbn [wtype].
        destruct j; try discriminate. cbn [is_null].
        rewrite is_some_option_map, is_some_map_opt in H. rewrite forallb_forall in H |- *.
        intros x Hx. exact (IHs F x (HP l x Pj Hx) (H x Hx)). }
      split; [|exact Hcore].
      intros F j Pj H. cbn [rename] in H. rewrite spec_nullable_list in H. destruct F as [|F]; [discriminate|].
      rewrite (deser_option henv env) in H. cbn [wtype]. destruct (is_null j) eqn:E; [reflexivity|].
      rewrite is_some_option_map in H. specialize (Hcore F j Pj). cbn [rename] in Hcore. rewrite core_list in Hcore.
      specialize (Hcore H). cbn [wtype] in Hcore. rewrite E in Hcore. exact Hcore.
    - split; [|exact I]. cbn [wf_gtype] in Hwf.
      destruct u as [m|v|v]; [| |discriminate].
      + destruct (IH Hwf) as [_ IHc]. intros F j Pj H. cbn [rename spec_rust] in H. cbn [wtype]. exact (IHc F j Pj H).
      + destruct (IH Hwf) as [_ IHc]. intros F j Pj H. cbn [rename spec_rust] in H. cbn [wtype].
        specialize (IHc F j Pj). cbn [rename] in IHc. exact (IHc H).
  Qed.

  Theorem field_type_sound t r : wf_gtype t = true -> decorate n (quals_sdl t) = Some r ->
    forall F j, P j -> is_some (deser henv F env r j) = true -> wtype leaf cnull true t j = true.
  Proof.
    intros Hwf Hd. rewrite (decorate_leaf t n Hwf) in Hd. inversion Hd; subst r.
    exact (proj1 (sound_both t Hwf)).
  Qed.
End TypeSound.

Lemma wtype_mono (l1 l2 : json -> bool) c : (forall j, l1 j = true -> l2 j = true) ->
  forall t b j, wtype l1 c b t j = true -> wtype l2 c b t j = true.
Proof.
  intros H. induction t as [m|u IH|u IH]; intros b j; cbn [wtype]; [| |apply IH].
  - destruct (is_null j); [tauto|apply H].
  - destruct (is_null j); [tauto|]. destruct j; try tauto.
    rewrite !forallb_forall. intros Hall x Hx. apply IH. apply Hall. exact Hx.
Qed.

(* ---------- struct layer, soundness direction *)
Section StructSound.
  Variables (D Dh : rtype -> json -> option rvalue) (env : list ritem).
  Variable fields : list rfield.
  Hypothesis Hplain : forallb (fun fd => negb (f_flatten fd)) fields = true.
  Hypothesis Hw : NoDup (map field_wire fields).
  Hypothesis Hi : NoDup (map f_ident fields).

  Lemma obj_get_in (m : list (string * json)) k v : obj_get k m = Some v -> In (k, v) m.
  Proof.
    induction m as [|[k' v'] r IH]; [discriminate|]. cbn [obj_get].
    destruct (String.eqb_spec k k') as [->|]; [intros H; inversion H; left; reflexivity|intros H; right; exact (IH H)].
  Qed.

  Lemma in_obj_get (m : list (string * json)) k v : NoDup (map fst m) -> In (k, v) m -> obj_get k m = Some v.
  Proof.
    induction m as [|[k' v'] r IH]; intros Hnd Hin; [destruct Hin|].
    cbn [obj_get]. inversion Hnd as [|? ? Hk Hnd']; subst.
    destruct Hin as [E|Hin].
    - inversion E; subst. rewrite String.eqb_refl. reflexivity.
    - destruct (String.eqb_spec k k') as [->|Hne]; [|exact (IH Hnd' Hin)].
      exfalso. apply Hk. change k' with (fst (k', v)). apply in_map. exact Hin.
  Qed.

  (* an accepted object: every present member was accepted, every absent one has a default *)
  Theorem struct_accepted_members m : NoDup (map fst m) -> is_some (deser_struct D Dh env fields m) = true ->
    forall fd, In fd fields ->
      match obj_get (field_wire fd) m with
      | Some v => deser_field D Dh fd v <> None
      | None => field_value [] fd <> None
      end.
  Proof.
    intros Hnd Hacc.
    assert (Hpresent : forall fd v, In fd fields -> In (field_wire fd, v) m -> deser_field D Dh fd v <> None).
    { intros fd v Hfd Hin Hbad.
      rewrite (struct_rejects_bad_member D Dh env fields Hplain Hw m fd v Hnd Hfd Hin Hbad) in Hacc. discriminate. }
    intros fd Hfd. destruct (obj_get (field_wire fd) m) as [v|] eqn:Eg.
    - exact (Hpresent fd v Hfd (obj_get_in m _ _ Eg)).
    - intros Hmiss.
      rewrite (struct_rejects_missing D Dh env fields Hplain Hw Hi m fd Hnd) in Hacc; try assumption; [discriminate|].
      intros k v f Hin Ef. destruct (find_field_some _ _ _ Ef) as [Hfin Hfw]. subst k.
      specialize (Hpresent f v Hfin Hin). destruct (deser_field D Dh f v) as [x|]; [exists x; reflexivity|congruence].
  Qed.
End StructSound.

Section OnStructSound.
  Variables (D Dh : rtype -> json -> option rvalue) (env : list ritem).
  Variables (plain : list rfield) (on : rfield) (en : string).
  Hypothesis Hplain : forallb (fun fd => negb (f_flatten fd)) plain = true.
  Hypothesis Hw : NoDup (map field_wire plain).
  Hypothesis Hi : NoDup (map f_ident plain).
  Hypothesis Hon : f_flatten on = true.
  Hypothesis Hty : strip_box (f_ty on) = RNamed en.
  Hypothesis Hen : exists a b c t vs, find_item en env = Some (ITagEnum a b c t vs).

  Lemma serve_plain_prefix_inv seen buf : forall l, forallb (fun fd => negb (f_flatten fd)) l = true ->
    forall tail, is_some (serve D env seen (l ++ tail) buf) = true ->
    (forall fd, In fd l -> field_value seen fd <> None) /\ is_some (serve D env seen tail buf) = true.
  Proof.
    induction l as [|fd r IH]; intros Hp tail H; [split; [intros fd []|exact H]|].
    cbn [forallb] in Hp. apply andb_true_iff in Hp. destruct Hp as [H1 H2]. apply negb_true_iff in H1.
    cbn [app serve] in H. rewrite H1 in H.
    destruct (field_value seen fd) as [v|] eqn:Ev; [|discriminate].
    destruct (serve D env seen (r ++ tail) buf) as [vs|] eqn:Es; [|discriminate].
    destruct (IH H2 tail) as [Ha Hb]; [rewrite Es; reflexivity|].
    split; [|exact Hb]. intros g [<-|Hg]; [rewrite Ev; discriminate|exact (Ha g Hg)].
  Qed.

  Theorem struct_on_accepted m : NoDup (map fst m) ->
    is_some (deser_struct D Dh env (plain ++ [on]) m) = true ->
    (forall fd, In fd plain ->
       match obj_get (field_wire fd) m with
       | Some v => deser_field D Dh fd v <> None
       | None => field_value [] fd <> None
       end) /\
    is_some (D (RNamed en) (JObj (filter (not_own plain) m))) = true.
  Proof.
    intros Hnd Hacc. unfold deser_struct in Hacc.
    rewrite (filter_plain_on plain on Hplain Hon) in Hacc.
    destruct (claim (deser_field D Dh) plain m [] []) as [[seen rest]|] eqn:Ec; [|discriminate].
    assert (Hdv : forall k v f, In (k, v) m -> find_field k plain = Some f -> exists x, deser_field D Dh f v = Some x).
    { intros k v f Hin Ef. destruct (deser_field D Dh f v) as [x|] eqn:Ed; [exists x; reflexivity|].
      rewrite (claim_value_error (deser_field D Dh) plain m [] [] k v f Hnd Hin Ef Ed) in Ec. discriminate. }
    destruct (claim_ok (deser_field D Dh) plain Hw Hi m Hnd Hdv) as [seen0 [Hc Hs]].
    rewrite Hc in Ec. inversion Ec; subst seen rest. clear Ec.
    rewrite is_some_option_map in Hacc.
    destruct (serve_plain_prefix_inv seen0 (filter (not_own plain) m) plain Hplain [on] Hacc) as [Hvals Hon'].
    split.
    - intros fd Hfd. specialize (Hvals fd Hfd). unfold field_value in Hvals. rewrite (Hs fd Hfd) in Hvals.
      destruct (obj_get (field_wire fd) m) as [v|] eqn:Eg.
      + destruct (find_field (field_wire fd) plain) as [f|] eqn:Ef.
        * destruct (find_field_some _ _ _ Ef) as [Hfin Hfw].
          assert (f = fd) by (apply (nodup_map_inj field_wire plain); auto). subst f.
          destruct (Hdv _ v fd (obj_get_in m _ _ Eg) Ef) as [x Hx]. rewrite Hx. discriminate.
        * exfalso. exact (find_field_none _ _ Ef fd Hfd eq_refl).
      + unfold field_value. cbn [assoc]. exact Hvals.
    - cbn [serve] in Hon'. rewrite Hon, Hty in Hon'. destruct Hen as [a [b [c [t [vs E]]]]]. rewrite E in Hon'.
      destruct (D (RNamed en) (JObj (filter (not_own plain) m))); [reflexivity|discriminate].
  Qed.
End OnStructSound.

(* ---------- a struct with plain members and flattened fragment structs, soundness direction *)
Section MixedStructSound.
  Variables (D Dh : rtype -> json -> option rvalue) (env : list ritem).

  Definition flat_plain (fd : rfield) : Prop :=
    f_flatten fd = true ->
    exists n a b c tf, strip_box (f_ty fd) = RNamed n /\ find_item n env = Some (IStruct a b c tf) /\ existsb f_flatten tf = false.

  Lemma serve_mixed_inv seen rest : forall fields,
    (forall fd, In fd fields -> flat_plain fd) ->
    NoDup (flat_map (names_of env) fields) ->
    forall N, (forall k, In k (flat_map (names_of env) fields) -> ~ In k N) ->
    is_some (serve D env seen fields (keys_out N rest)) = true ->
    forall fd, In fd fields ->
      if f_flatten fd
      then forall n a b c tf, strip_box (f_ty fd) = RNamed n -> find_item n env = Some (IStruct a b c tf) ->
             is_some (D (RNamed n) (JObj (keys_in (map field_wire tf) rest))) = true
      else field_value seen fd <> None.
  Proof.
    induction fields as [|g more IH]; intros Hshape Hnd N HN Hacc fd Hfd; [destruct Hfd|].
    cbn [serve] in Hacc. cbn [flat_map] in Hnd, HN. apply NoDup_app_iff in Hnd. destruct Hnd as [Hn1 [Hn2 Hdis]].
    destruct (f_flatten g) eqn:Eg.
    - destruct (Hshape g (or_introl eq_refl) Eg) as [n [a [b [c [tf [Hty [Hfi Hnf]]]]]]].
      rewrite Hty, Hfi, Hnf in Hacc.
      assert (Hnames : names_of env g = map field_wire tf) by (unfold names_of; rewrite Eg, Hty, Hfi; reflexivity).
      rewrite keys_in_out_disjoint in Hacc; [|intros k Hk; apply HN; apply in_or_app; left; rewrite Hnames; exact Hk].
      destruct (D (RNamed n) (JObj (keys_in (map field_wire tf) rest))) as [v|] eqn:Ed; [|discriminate].
      rewrite keys_out_app in Hacc.
      destruct (serve D env seen more (keys_out (N ++ map field_wire tf) rest)) as [vs|] eqn:Es; [|discriminate].
      destruct Hfd as [<-|Hfd].
      + rewrite Eg. intros n' a' b' c' tf' Hty' Hfi'. rewrite Hty in Hty'. inversion Hty'; subst n'.
        rewrite Hfi in Hfi'. inversion Hfi'; subst. rewrite Ed. reflexivity.
      + apply (IH (fun x Hx => Hshape x (or_intror Hx)) Hn2 (N ++ map field_wire tf)); [|rewrite Es; reflexivity|exact Hfd].
        intros k Hk Hin. apply in_app_or in Hin. destruct Hin as [Hin|Hin].
        * apply (HN k); [apply in_or_app; right; exact Hk|exact Hin].
        * apply (Hdis k); [rewrite Hnames; exact Hin|exact Hk].
    - destruct (field_value seen g) as [v|] eqn:Ev; [|discriminate].
      assert (Hno : names_of env g = []) by (unfold names_of; rewrite Eg; reflexivity).
      rewrite Hno in HN. cbn [app] in HN.
      destruct (serve D env seen more (keys_out N rest)) as [vs|] eqn:Es; [|discriminate].
      destruct Hfd as [<-|Hfd].
      + rewrite Eg, Ev. discriminate.
      + apply (IH (fun x Hx => Hshape x (or_intror Hx)) Hn2 N HN); [rewrite Es; reflexivity|exact Hfd].
  Qed.

  Theorem mixed_struct_accepted fields m :
    let own := filter (fun fd => negb (f_flatten fd)) fields in
    NoDup (map field_wire own) -> NoDup (map f_ident own) -> NoDup (map fst m) ->
    (forall fd, In fd fields -> flat_plain fd) ->
    NoDup (flat_map (names_of env) fields) ->
    is_some (deser_struct D Dh env fields m) = true ->
    (forall fd, In fd own ->
       match obj_get (field_wire fd) m with
       | Some v => deser_field D Dh fd v <> None
       | None => field_value [] fd <> None
       end) /\
    (forall fd, In fd fields -> f_flatten fd = true ->
       forall n a b c tf, strip_box (f_ty fd) = RNamed n -> find_item n env = Some (IStruct a b c tf) ->
         is_some (D (RNamed n) (JObj (keys_in (map field_wire tf) (filter (not_own own) m)))) = true).
  Proof.
    intros own Hw Hi Hnd Hshape Hnames Hacc. unfold deser_struct in Hacc. fold own in Hacc.
    destruct (claim (deser_field D Dh) own m [] []) as [[seen rest]|] eqn:Ec; [|discriminate].
    assert (Hdv : forall k v f, In (k, v) m -> find_field k own = Some f -> exists x, deser_field D Dh f v = Some x).
    { intros k v f Hin Ef. destruct (deser_field D Dh f v) as [x|] eqn:Ed; [exists x; reflexivity|].
      rewrite (claim_value_error (deser_field D Dh) own m [] [] k v f Hnd Hin Ef Ed) in Ec. discriminate. }
    destruct (claim_ok (deser_field D Dh) own Hw Hi m Hnd Hdv) as [seen0 [Hc Hs]].
    rewrite Hc in Ec. inversion Ec; subst seen rest. clear Ec.
    rewrite is_some_option_map in Hacc. rewrite <- (keys_out_nil (filter (not_own own) m)) in Hacc.
    pose proof (serve_mixed_inv seen0 (filter (not_own own) m) fields Hshape Hnames [] (fun k _ X => X) Hacc) as Hinv.
    split.
    - intros fd Hfd. pose proof Hfd as Hfd0. unfold own in Hfd. apply filter_In in Hfd. destruct Hfd as [Hff Hfp].
      apply negb_true_iff in Hfp. specialize (Hinv fd Hff). rewrite Hfp in Hinv.
      unfold field_value in Hinv. rewrite (Hs fd Hfd0) in Hinv.
      destruct (obj_get (field_wire fd) m) as [v|] eqn:Eg.
      + destruct (find_field (field_wire fd) own) as [f|] eqn:Ef.
        * destruct (find_field_some _ _ _ Ef) as [Hfin Hfw].
          assert (f = fd) by (apply (nodup_map_inj field_wire own); auto). subst f.
          destruct (Hdv _ v fd (obj_get_in m _ _ Eg) Ef) as [x Hx]. rewrite Hx. discriminate.
        * exfalso. exact (find_field_none _ _ Ef fd Hfd0 eq_refl).
      + unfold field_value. cbn [assoc]. exact Hinv.
    - intros fd Hfd Hfl. specialize (Hinv fd Hfd). rewrite Hfl in Hinv. exact Hinv.
  Qed.
End MixedStructSound.

(* internally tagged enum, soundness direction *)
Lemma tagged_accepted (D : rtype -> json -> option rvalue) tag variants (m : list (string * json)) :
  NoDup (map fst m) -> is_some (deser_tagged D tag variants m) = true ->
  exists x, obj_get tag m = Some (JStr x) /\
    match find (fun v => String.eqb (variant_wire v) x) variants with
    | Some var =>
        match v_payload var with
        | None => True
        | Some pt => is_some (D pt (JObj (filter (fun e => negb (String.eqb (fst e) tag)) m))) = true
        end
    | None => exists o, find v_other variants = Some o
    end.
Proof.
  intros Hnd H. unfold deser_tagged in H.
  destruct (filter (fun e => String.eqb (fst e) tag) m) as [|[k [| | | |x| |]] [|? ?]] eqn:Ef; try discriminate.
  exists x. split.
  - assert (Hin : In (k, JStr x) (filter (fun e => String.eqb (fst e) tag) m)) by (rewrite Ef; left; reflexivity).
    apply filter_In in Hin. destruct Hin as [Hin Hk]. cbn [fst] in Hk. apply String.eqb_eq in Hk. subst k.
    exact (in_obj_get m tag (JStr x) Hnd Hin).
  - destruct (find (fun v => String.eqb (variant_wire v) x) variants) as [var|].
    + destruct (v_payload var) as [pt|]; [|exact I]. rewrite is_some_option_map in H. exact H.
    + destruct (find v_other variants) as [o|]; [exists o; reflexivity|discriminate].
Qed.

(* ---------- soundness of the checker in the rejecting direction *)
Section ExactSound.
  Variables (s : aschema) (frags : list (string * (string * list sel))) (henv env : list ritem) (other : bool).
  (* the catch-all variant exists only under fragments_other_variant *)
  Hypothesis Hother : other = false ->
    forall n a b c tag vs, find_item n env = Some (ITagEnum a b c tag vs) -> forall v, In v vs -> v_other v = false.

  Definition wpos (fw : nat) (t : string) (sels : list sel) (m : list (string * json)) : bool :=
    match find_kind_sdl s t with
    | Some KObject => wobj s frags other fw t sels m
    | Some KInterface | Some KUnion =>
        match obj_get "__typename" m with
        | Some (JStr x) => if mem_str x (possible s t) then wobj s frags other fw x sels m else other
        | _ => false
        end
    | _ => false
    end.

  Definition Exact (rec : string -> string -> list sel -> option nat) : Prop :=
    forall name t sels B, rec name t sels = Some B ->
      (forall F, deser henv F env (RNamed name) JNull = None) /\
      (forall F m fw, UK (JObj m) -> is_some (deser henv F env (RNamed name) (JObj m)) = true -> wpos fw t sels m = true) /\
      (forall F j, is_some (deser henv F env (RNamed name) j) = true ->
         match j with JObj _ => True | JArr _ => find_kind_sdl s t = Some KObject | _ => False end).

  Lemma wleaf_composite fw tn sub j :
    match find_kind_sdl s tn with Some KObject | Some KInterface | Some KUnion => True | _ => False end ->
    wleaf_of s other (wobj s frags other fw) tn sub j =
      match j with
      | JObj m' => wpos fw tn sub m'
      | JArr _ => match find_kind_sdl s tn with Some KObject => true | _ => false end
      | _ => false
      end.
  Proof.
    unfold wleaf_of, wpos. destruct (find_kind_sdl s tn) as [[| | | | |]|]; try contradiction; intros _; destruct j; reflexivity.
  Qed.

  (* leaves: accepted => of the enforced kind; and null is refused unless the type is the consumer's *)
  Lemma wleaf_sound rec : Exact rec ->
    forall tn ln sub F0, leaf_need s env rec tn ln sub = Some F0 ->
    (custom_scalar s tn = false -> forall F, deser henv F env (RNamed ln) JNull = None) /\
    forall fw F j, UK j -> is_null j = false -> is_some (deser henv F env (RNamed ln) j) = true ->
      wleaf_of s other (wobj s frags other fw) tn sub j = true.
  Proof.
    intros Hrec tn ln sub F0 Hn. unfold leaf_need in Hn.
    assert (Hcomp : match find_kind_sdl s tn with Some KObject | Some KInterface | Some KUnion => True | _ => False end ->
              forall B, match sub with [] => None | _ => rec ln tn sub end = Some B ->
              (forall F, deser henv F env (RNamed ln) JNull = None) /\
              forall fw F j, UK j -> is_null j = false -> is_some (deser henv F env (RNamed ln) j) = true ->
                wleaf_of s other (wobj s frags other fw) tn sub j = true).
    { intros Hk B HB. destruct sub as [|x0 sub0]; [discriminate|].
      destruct (Hrec ln tn (x0 :: sub0) B HB) as [Hnl [Hobj Hkind]]. split; [exact Hnl|].
      intros fw F j Huk Hnn Hacc. rewrite (wleaf_composite fw tn (x0 :: sub0) j Hk).
      pose proof (Hkind F j Hacc) as Hj. destruct j; try contradiction.
      - rewrite Hj. reflexivity.
      - exact (Hobj F m fw Huk Hacc). }
    unfold custom_scalar.
    destruct (find_kind_sdl s tn) as [[| | | | |]|] eqn:Ek; try discriminate;
      try (destruct (Hcomp I F0 Hn) as [H1 H2]; split; [intros _; exact H1|exact H2]).
    - (* scalar *)
      unfold wleaf_of. rewrite Ek.
      destruct (String.eqb_spec tn "Int") as [->|N1].
      { destruct (String.eqb_spec ln "Int") as [->|]; [|discriminate]. cbn [andb] in Hn.
        destruct (alias_to env "Int" "i64") eqn:Ea; [|discriminate].
        destruct (alias_to_find env _ _ Ea) as [n' Hf].
        assert (Hev : forall F j, deser henv F env (RNamed "Int") j =
                  match F with S (S _) => match j with JInt z => if in_i64 z then Some (VInt z) else None | _ => None end | _ => None end).
        { intros [|[|F]] j; [reflexivity| |].
          - rewrite (deser_alias henv env 0 "Int" n' _ j eq_refl Hf). reflexivity.
          - rewrite (deser_alias henv env (S F) "Int" n' _ j eq_refl Hf). reflexivity. }
        split; [intros _ F; rewrite Hev; destruct F as [|[|F]]; reflexivity|].
        intros fw F j _ _ H. rewrite Hev in H. destruct F as [|[|F]]; try discriminate.
        destruct j; try discriminate. cbn. destruct (in_i64 z); [reflexivity|discriminate]. }
      destruct (String.eqb_spec tn "Float") as [->|N2].
      { destruct (String.eqb_spec ln "Float") as [->|]; [|discriminate]. cbn [andb] in Hn.
        destruct (alias_to env "Float" "f64") eqn:Ea; [|discriminate].
        destruct (alias_to_find env _ _ Ea) as [n' Hf].
        assert (Hev : forall F j, deser henv F env (RNamed "Float") j =
                  match F with S (S _) => match j with JInt _ | JFrac _ => Some (VFloat j) | _ => None end | _ => None end).
        { intros [|[|F]] j; [reflexivity| |].
          - rewrite (deser_alias henv env 0 "Float" n' _ j eq_refl Hf). reflexivity.
          - rewrite (deser_alias henv env (S F) "Float" n' _ j eq_refl Hf). reflexivity. }
        split; [intros _ F; rewrite Hev; destruct F as [|[|F]]; reflexivity|].
        intros fw F j _ _ H. rewrite Hev in H. destruct F as [|[|F]]; try discriminate.
        destruct j; try discriminate; reflexivity. }
      destruct (String.eqb_spec tn "Boolean") as [->|N3].
      { destruct (String.eqb_spec ln "Boolean") as [->|]; [|discriminate]. cbn [andb] in Hn.
        destruct (alias_to env "Boolean" "bool") eqn:Ea; [|discriminate].
        destruct (alias_to_find env _ _ Ea) as [n' Hf].
        assert (Hev : forall F j, deser henv F env (RNamed "Boolean") j =
                  match F with S (S _) => match j with JBool b => Some (VBool b) | _ => None end | _ => None end).
        { intros [|[|F]] j; [reflexivity| |].
          - rewrite (deser_alias henv env 0 "Boolean" n' _ j eq_refl Hf). reflexivity.
          - rewrite (deser_alias henv env (S F) "Boolean" n' _ j eq_refl Hf). reflexivity. }
        split; [intros _ F; rewrite Hev; destruct F as [|[|F]]; reflexivity|].
        intros fw F j _ _ H. rewrite Hev in H. destruct F as [|[|F]]; try discriminate.
        destruct j; try discriminate; reflexivity. }
      destruct (String.eqb_spec tn "String") as [->|N4].
      { destruct (String.eqb_spec ln "String") as [->|]; [|discriminate].
        split; [intros _ [|F]; reflexivity|].
        intros fw [|F] j _ _ H; [discriminate|]. cbn in H. destruct j; try discriminate; reflexivity. }
      destruct (String.eqb_spec tn "ID") as [->|N5]; [discriminate|].
      split.
      + (* a custom scalar: nothing to show about null *)
        assert (Hc : mem_str tn ["Int"; "Float"; "String"; "Boolean"; "ID"] = false).
        { cbn [mem_str]. repeat match goal with H : tn <> ?x |- context [String.eqb tn ?x] => destruct (String.eqb_spec tn x); [contradiction|] end. reflexivity. }
        rewrite Hc. cbn. discriminate.
      + intros fw F j _ _ _. unfold wscalar.
        repeat match goal with H : tn <> ?x |- context [String.eqb tn ?x] => destruct (String.eqb_spec tn x); [contradiction|] end.
        reflexivity.
    - (* enum *)
      unfold wleaf_of. rewrite Ek.
      destruct (is_prim ln) eqn:Ep; [discriminate|]. cbn [negb andb] in Hn.
      destruct (find_item ln env) as [[| | | | |n' d vs sa so da [|]| | |]|] eqn:Ef; try discriminate.
      split.
      + intros _ [|F]; [reflexivity|]. cbn [deser]. rewrite (prim_deser_none ln JNull Ep), Ef. reflexivity.
      + intros fw [|F] j _ _ H; [discriminate|]. cbn [deser] in H. rewrite (prim_deser_none ln j Ep), Ef in H.
        destruct j; try discriminate. reflexivity.
  Qed.
End ExactSound.

(* ---------- ID helpers, soundness direction *)
Section IdSound.
  Variable henv : list ritem.
  Hypothesis Hh : henv_ok henv = true.

  Lemma ios_any F j : is_some (deser henv F henv (RNamed "IntOrString") j) = true -> id_leaf j = true.
  Proof.
    destruct F as [|[|F]].
    - discriminate.
    - destruct (henv_items henv Hh) as [n [d [r1 [o1 [r2 [o2 E]]]]]].
      cbn [deser]. change (prim_deser "IntOrString" j) with (@None (option rvalue)). cbv iota. rewrite E.
      cbn [deser_untagged v_payload v_ident deser]. discriminate.
    - rewrite (ios_eval henv Hh F j). destruct j; try discriminate; cbn; [destruct (in_i64 z); [reflexivity|discriminate]|reflexivity].
  Qed.

  Lemma int_or_string_sound F j : is_some (int_or_string (deser henv F henv) j) = true -> id_leaf j = true.
  Proof.
    unfold int_or_string. intros H. apply (ios_any F j).
    destruct (deser henv F henv (RNamed "IntOrString") j); [reflexivity|discriminate].
  Qed.

  Lemma id_container_sound_both F t : wf_gtype t = true ->
    (forall j, is_some (id_container_deser (deser henv F henv) (spec_rust (rename t "ID")) j) = true ->
       wtype id_leaf false true t j = true) /\
    (match t with GNonNull _ => True | _ =>
       forall j, is_some (id_container_deser (deser henv F henv) (core (rename t "ID")) j) = true ->
         wtype id_leaf false false t j = true end).
  Proof.
    induction t as [m|u IH|u IH]; intros Hwf.
    - split.
      + intros j H. cbn [rename spec_rust core id_container_deser] in H. cbn [wtype].
        destruct (is_null j) eqn:E; [reflexivity|]. rewrite is_some_option_map in H. exact (int_or_string_sound F j H).
      + intros j H. cbn [rename core id_container_deser] in H. cbn [wtype].
        pose proof (int_or_string_sound F j H) as Hl. destruct j; try discriminate; exact Hl.
    - cbn [wf_gtype] in Hwf. destruct (IH Hwf) as [IHs _].
      assert (Hcore : forall j, is_some (id_container_deser (deser henv F henv) (core (rename (GList u) "ID")) j) = true ->
                wtype id_leaf false false (GList u) j = true).
      { intros j H. cbn [rename] in H. rewrite core_list in H. cbn [id_container_deser] in H. cbn [wtype].
        destruct j; try discriminate. cbn [is_null].
        rewrite is_some_option_map, is_some_map_opt in H. rewrite forallb_forall in H |- *.
        intros x Hx. exact (IHs x (H x Hx)). }
      split; [|exact Hcore].
      intros j H. cbn [rename] in H. rewrite spec_nullable_list in H. cbn [id_container_deser] in H. cbn [wtype].
      destruct (is_null j) eqn:E; [reflexivity|]. rewrite is_some_option_map in H.
      specialize (Hcore j). cbn [rename] in Hcore. rewrite core_list in Hcore. specialize (Hcore H).
      cbn [wtype] in Hcore. rewrite E in Hcore. exact Hcore.
    - split; [|exact I]. cbn [wf_gtype] in Hwf.
      destruct u as [m|v|v]; [| |discriminate].
      + destruct (IH Hwf) as [_ IHc]. intros j H. cbn [rename spec_rust] in H. cbn [wtype]. exact (IHc j H).
      + destruct (IH Hwf) as [_ IHc]. intros j H. cbn [rename spec_rust] in H. cbn [wtype].
        specialize (IHc j). cbn [rename] in IHc. exact (IHc H).
  Qed.
End IdSound.

(* ---------- composition, rejecting direction *)
Section ExactCompose.
  Variables (s : aschema) (frags : list (string * (string * list sel))) (henv env : list ritem) (other : bool).
  Hypothesis Hother : other = false ->
    forall n a b c tag vs, find_item n env = Some (ITagEnum a b c tag vs) -> forall v, In v vs -> v_other v = false.

  Notation Exact := (Exact s frags henv env other).
  Notation wrec fw := (wobj s frags other fw).

  Lemma option_spec_nullable t n : wf_gtype t = true -> is_option_type (spec_rust (rename t n)) = top_nullable t.
  Proof. destruct t as [m|u|u]; cbn; try reflexivity. intros H. destruct u; cbn in *; try reflexivity; try discriminate. Qed.

  (* one plain member: accepted value => enforced part; absent => nullable *)
  Lemma member_sound rec : Exact rec ->
    forall t rt fd a n sub nd fw F m,
    pair_need s henv env rec t fd (SField a n sub) = Some nd ->
    String.eqb n "__typename" = false ->
    option_map fd_type (field_def s rt n) = option_map fd_type (field_def s t n) ->
    UK (JObj m) ->
    match obj_get (field_wire fd) m with
    | Some v => deser_field (deser henv F env) (deser henv F henv) fd v <> None
    | None => field_value [] fd <> None
    end ->
    wfield_ok s other (wrec fw) rt m (sel_entry (SField a n sub)) = true.
  Proof.
    intros Hrec t rt fd a n sub nd fw F m Hpn Hnt Hdef Huk Hmem.
    unfold pair_need in Hpn.
    destruct (String.eqb_spec (field_wire fd) (response_key a n)) as [Hwk|]; [|discriminate]. cbn [negb] in Hpn.
    cbn [sel_entry]. unfold wfield_ok. rewrite Hnt.
    destruct (field_def s rt n) as [fdr|] eqn:Efr; [|reflexivity].
    destruct (field_def s t n) as [fdf|] eqn:Efd; [|discriminate Hdef].
    cbn [option_map] in Hdef. assert (Hty : fd_type fdr = fd_type fdf) by congruence. rewrite Hty. clear Hdef Hty.
    rewrite <- Hwk.
    destruct (UK_obj m Huk) as [Hmnd Hvals].
    destruct (f_deser_with fd) as [h|] eqn:Edw.
    { (* an ID field *)
      match type of Hpn with (if ?c then _ else _) = _ => destruct c eqn:Ec; [|discriminate] end.
      repeat (apply andb_true_iff in Ec; destruct Ec as [Ec ?]).
      match goal with H : String.eqb (gname _) "ID" = true |- _ => apply String.eqb_eq in H; rename H into Hid end.
      match goal with H : henv_ok henv = true |- _ => rename H into Hh end.
      match goal with H : wf_gtype _ = true |- _ => rename H into Hwf end.
      match goal with H : negb (f_default fd) || top_nullable _ = true |- _ => rename H into Hdf end.
      match goal with H : match decorate "ID" _ with Some _ => _ | None => _ end = true |- _ => rename H into Hdec end.
      match goal with H : context [find_kind_sdl s "ID"] |- _ => rename H into Hk end.
      rewrite Hid.
      assert (Hcs : custom_scalar s "ID" = false).
      { unfold custom_scalar. destruct (find_kind_sdl s "ID") as [[]|]; reflexivity. }
      rewrite Hcs.
      assert (Hlf : forall j, id_leaf j = true -> wleaf_of s other (wrec fw) "ID" sub j = true).
      { intros j Hj. unfold wleaf_of. destruct (find_kind_sdl s "ID") as [[| | | | |]|]; try discriminate. exact Hj. }
      destruct (obj_get (field_wire fd) m) as [v|] eqn:Eg.
      - unfold deser_field in Hmem. rewrite Edw in Hmem.
        apply (wtype_mono _ _ false Hlf).
        destruct (String.eqb h "deserialize_id") eqn:E1.
        + destruct (fd_type fdf) as [|?|[nm1|?|?]]; try discriminate. cbn [wtype].
          assert (Hs : is_some (int_or_string (deser henv F henv) v) = true) by (destruct (int_or_string _ v); [reflexivity|congruence]).
          pose proof (int_or_string_sound henv Hh F v Hs) as Hl. destruct v; try discriminate; exact Hl.
        + destruct (String.eqb h "deserialize_option_id") eqn:E2.
          * destruct (fd_type fdf) as [nm2|?|?]; try discriminate. cbn [wtype].
            destruct (is_null v) eqn:En; [reflexivity|].
            destruct F as [|F]; [exfalso; apply Hmem; reflexivity|].
            change (deser henv (S F) henv (ROption (RNamed "IntOrString")) v)
              with (if is_null v then Some VNone else option_map VSome (deser henv F henv (RNamed "IntOrString") v)) in Hmem.
            rewrite En in Hmem. apply (ios_any henv Hh F v).
            destruct (deser henv F henv (RNamed "IntOrString") v); [reflexivity|exfalso; apply Hmem; reflexivity].
          * match goal with H : String.eqb h "deserialize_id_list" = true |- _ => rewrite H in Hmem end.
            rewrite (decorate_leaf _ "ID" Hwf) in Hdec. apply rtype_eqb_eq in Hdec. rewrite <- Hdec in Hmem.
            apply (proj1 (id_container_sound_both henv Hh F _ Hwf) v).
            destruct (id_container_deser _ _ v); [reflexivity|congruence].
      - (* absent: only with `default`, which the checker allows on nullable types only *)
        unfold field_value in Hmem. cbn [assoc] in Hmem. rewrite Edw in Hmem.
        destruct (f_default fd); [cbn [negb orb] in Hdf; exact Hdf|congruence]. }
    destruct (wf_gtype (fd_type fdf) && negb (f_default fd)) eqn:Ewf0; [|discriminate]. cbn [negb] in Hpn.
    apply andb_true_iff in Ewf0. destruct Ewf0 as [Ewf Hnodef]. apply negb_true_iff in Hnodef.
    destruct (leaf_need s env rec (gname (fd_type fdf)) (rleaf (f_ty fd)) sub) as [F0|] eqn:El; [|discriminate].
    destruct (decorate (rleaf (f_ty fd)) (quals_sdl (fd_type fdf))) as [r|] eqn:Edec; [|discriminate].
    destruct (rtype_eqb r (f_ty fd)) eqn:Er; [|discriminate]. apply rtype_eqb_eq in Er. subst r.
    destruct (wleaf_sound s frags henv env other rec Hrec _ _ _ _ El) as [Hnl Hlf].
    destruct (obj_get (field_wire fd) m) as [v|] eqn:Eg.
    - unfold deser_field in Hmem. rewrite Edw in Hmem.
      apply (field_type_sound henv env (rleaf (f_ty fd)) (wleaf_of s other (wrec fw) (gname (fd_type fdf)) sub)
               (custom_scalar s (gname (fd_type fdf))) UK UK_arr) with (r := f_ty fd) (F := F).
      + intros F1 j1 Huk1 Hn1 Hacc. exact (Hlf fw F1 j1 Huk1 Hn1 Hacc).
      + exact Hnl.
      + exact Ewf.
      + exact Edec.
      + exact (Hvals _ v (obj_get_in m _ _ Eg)).
      + destruct (deser henv F env (f_ty fd) v); [reflexivity|congruence].
    - unfold field_value in Hmem. cbn [assoc] in Hmem. rewrite Hnodef, Edw in Hmem.
      rewrite (decorate_leaf _ _ Ewf) in Edec. inversion Edec as [Hr]. rewrite <- Hr in Hmem.
      rewrite (option_spec_nullable _ _ Ewf) in Hmem. destruct (top_nullable (fd_type fdf)); [reflexivity|congruence].
  Qed.

  Lemma members_conds rec t fields own needs : members_need s henv env rec t fields own = Some needs ->
    forallb (fun fd => negb (f_flatten fd)) fields = true /\ NoDup (map field_wire fields) /\ NoDup (map f_ident fields) /\
    List.length fields = List.length own /\
    forall fd x, In (fd, x) (combine fields own) -> exists nd, pair_need s henv env rec t fd x = Some nd.
  Proof.
    unfold members_need. intros Hm.
    match type of Hm with (if ?c then _ else _) = _ => destruct c eqn:Ec; [|discriminate] end.
    apply andb_true_iff in Ec. destruct Ec as [Ec Hlen]. apply andb_true_iff in Ec. destruct Ec as [Ec Hi].
    apply andb_true_iff in Ec. destruct Ec as [Hplain Hw].
    apply nodup_str_NoDup in Hw. apply nodup_str_NoDup in Hi. apply Nat.eqb_eq in Hlen.
    repeat split; try assumption.
    intros fd x Hx. destruct (map_opt_in _ _ _ _ Hm Hx) as [nd [Hpn _]]. exists nd. exact Hpn.
  Qed.

  Lemma obj_exact rec : Exact rec ->
    forall name t sels B, find_kind_sdl s t = Some KObject -> obj_need s henv env rec name t sels = Some B ->
      (forall F, deser henv F env (RNamed name) JNull = None) /\
      (forall F m fw, UK (JObj m) -> is_some (deser henv F env (RNamed name) (JObj m)) = true -> wpos s frags other fw t sels m = true) /\
      (forall F j, is_some (deser henv F env (RNamed name) j) = true ->
         match j with JObj _ => True | JArr _ => find_kind_sdl s t = Some KObject | _ => False end).
  Proof.
    intros Hrec name t sels B Ek H. unfold obj_need in H.
    destruct (forallb is_field sels && nodup_str (map (fun x => fst (sel_entry x)) sels) && negb (is_prim name)) eqn:E1;
      [|discriminate]. cbn [negb] in H.
    apply andb_true_iff in E1. destruct E1 as [E1 Hprim]. apply andb_true_iff in E1. destruct E1 as [Hfld Hnd].
    apply negb_true_iff in Hprim. apply nodup_str_NoDup in Hnd.
    destruct (find_item name env) as [[nm d c fields| | | | | | | |]|] eqn:Ef; try discriminate.
    destruct (members_need s henv env rec t fields (filter not_typename sels)) as [needs|] eqn:Em; [|discriminate].
    destruct (members_conds rec t fields _ needs Em) as [Hplain [Hw [Hi [Hlen Hpairs]]]].
    split; [|split].
    - intros [|F]; [reflexivity|]. cbn [deser]. rewrite (prim_deser_none name JNull Hprim), Ef. reflexivity.
    - intros F m fw Huk Hacc. unfold wpos. rewrite Ek.
      destruct fw as [|fw]; [reflexivity|]. cbn [wobj].
      rewrite (collected_plain s frags t sels Hfld Hnd).
      destruct F as [|F]; [discriminate|]. cbn [deser] in Hacc. rewrite (prim_deser_none name (JObj m) Hprim), Ef in Hacc.
      destruct (UK_obj m Huk) as [Hmnd _].
      pose proof (struct_accepted_members (deser henv F env) (deser henv F henv) env fields Hplain Hw Hi m Hmnd Hacc) as Hmem.
      apply forallb_forall. intros e He. apply in_map_iff in He. destruct He as [x [<- Hx]].
      rewrite forallb_forall in Hfld. pose proof (Hfld x Hx) as Hxf. destruct x as [a n sub| |]; try discriminate.
      destruct (String.eqb n "__typename") eqn:En.
      + cbn [sel_entry]. unfold wfield_ok. rewrite En. reflexivity.
      + assert (Hxo : In (SField a n sub) (filter not_typename sels)).
        { apply filter_In. split; [exact Hx|]. unfold not_typename. cbn [sel_entry fst snd]. rewrite En. reflexivity. }
        destruct (in_combine_exists_r fields _ _ Hlen Hxo) as [fd Hfd].
        destruct (Hpairs fd _ Hfd) as [nd Hpn].
        apply (member_sound rec Hrec t t fd a n sub nd fw F m Hpn En eq_refl Huk).
        exact (Hmem fd (in_combine_l _ _ _ _ Hfd)).
    - intros F j Hacc. destruct F as [|F]; [discriminate|]. cbn [deser] in Hacc.
      rewrite (prim_deser_none name j Hprim), Ef in Hacc. destruct j; try discriminate; [exact Ek|exact I].
  Qed.

  Lemma UK_filter (p : string * json -> bool) m : UK (JObj m) -> UK (JObj (filter p m)).
  Proof.
    intros H f. destruct f as [|f]; [reflexivity|]. specialize (H (S f)). cbn [wfj] in *.
    apply andb_true_iff in H. destruct H as [H1 H2]. apply andb_true_iff. split.
    - apply nodup_str_NoDup. apply nodup_keys_filter. apply nodup_str_NoDup. exact H1.
    - rewrite forallb_forall in H2 |- *. intros e He. apply filter_In in He. exact (H2 e (proj1 He)).
  Qed.

  Lemma obj_get_filter_some (p : string * json -> bool) (m : list (string * json)) k v :
    NoDup (map fst m) -> obj_get k (filter p m) = Some v -> obj_get k m = Some v.
  Proof.
    intros Hnd H. apply obj_get_in in H. apply filter_In in H. exact (in_obj_get m k v Hnd (proj1 H)).
  Qed.

  Lemma assoc_inlines_in v sb sels : NoDup (map fst (inlines sels)) -> In (SInline (Some v) sb) sels ->
    assoc v (inlines sels) = Some sb.
  Proof.
    intros Hnd Hin.
    assert (Hi : In (v, sb) (inlines sels)).
    { unfold inlines. apply in_flat_map. exists (SInline (Some v) sb). split; [exact Hin|left; reflexivity]. }
    clear Hin. induction (inlines sels) as [|[k x] r IH]; [destruct Hi|].
    cbn [map fst] in Hnd. inversion Hnd as [|? ? Hk Hr]; subst. cbn [assoc].
    destruct Hi as [E|Hi].
    - inversion E; subst. rewrite String.eqb_refl. reflexivity.
    - destruct (String.eqb_spec v k) as [->|_]; [|exact (IH Hr Hi)].
      exfalso. apply Hk. change k with (fst (k, sb)). apply in_map. exact Hi.
  Qed.

  Lemma wfield_ok_ext rec rt (m m' : list (string * json)) e :
    obj_get (fst e) m = obj_get (fst e) m' -> wfield_ok s other rec rt m e = wfield_ok s other rec rt m' e.
  Proof. destruct e as [k [n sb]]. cbn [fst]. intros H. unfold wfield_ok. rewrite H. reflexivity. Qed.

  Lemma abs_exact rec : Exact rec ->
    forall name t sels B,
      match find_kind_sdl s t with Some KInterface | Some KUnion => True | _ => False end ->
      abs_need s henv env rec name t sels = Some B ->
      (forall F, deser henv F env (RNamed name) JNull = None) /\
      (forall F m fw, UK (JObj m) -> is_some (deser henv F env (RNamed name) (JObj m)) = true -> wpos s frags other fw t sels m = true) /\
      (forall F j, is_some (deser henv F env (RNamed name) j) = true ->
         match j with JObj _ => True | JArr _ => find_kind_sdl s t = Some KObject | _ => False end).
  Proof.
    intros Hrec name t sels B Hkind H.
    unfold abs_need in H.
    set (own := filter (fun x => is_field x && not_typename x) sels) in *.
    match type of H with (if negb ?c then _ else _) = _ => destruct c eqn:EC; [|discriminate] end. cbn [negb] in H.
    apply andb_true_iff in EC; destruct EC as [EC Hposs].
    apply andb_true_iff in EC; destruct EC as [EC Hprim]. apply negb_true_iff in Hprim.
    apply andb_true_iff in EC; destruct EC as [EC Hinl]. apply nodup_str_NoDup in Hinl.
    apply andb_true_iff in EC; destruct EC as [Hshape Htn].
    rewrite forallb_forall in Hposs.
    apply existsb_exists in Htn. destruct Htn as [xt [Hxt Hxt']]. destruct xt as [[|] nt subt| |]; try discriminate.
    apply String.eqb_eq in Hxt'. subst nt.
    pose proof Hshape as Hshape'. rewrite forallb_forall in Hshape'.
    (* facts for a possible runtime type *)
    assert (Hrtfacts : forall rt, In rt (possible s t) ->
              NoDup (map fst (mixed_entries s rt sels)) /\ find_kind_sdl s rt = Some KObject /\
              forall x, In x own -> match x with
                                    | SField _ n _ => option_map fd_type (field_def s rt n) = option_map fd_type (field_def s t n)
                                    | _ => True end).
    { intros rt Hrt. specialize (Hposs rt Hrt).
      apply andb_true_iff in Hposs; destruct Hposs as [Hp Hownty].
      apply andb_true_iff in Hp; destruct Hp as [Hnd Hrtobj]. apply nodup_str_NoDup in Hnd.
      split; [exact Hnd|]. split; [destruct (find_kind_sdl s rt) as [[]|]; try discriminate; reflexivity|].
      intros x Hx. rewrite forallb_forall in Hownty. specialize (Hownty x Hx). destruct x; try exact I.
      exact (opt_gtype_eq _ _ Hownty). }
    (* the enum of this position: what accepting an object with these keys implies *)
    assert (Henum : forall variants vn F2 (m m2 : list (string * json)) fw,
              variants_need s rec t sels variants = Some vn ->
              (other = false -> forall v, In v variants -> v_other v = false) ->
              UK (JObj m2) ->
              (forall k v, obj_get k m2 = Some v -> obj_get k m = Some v) ->
              (forall rt sb y, In rt (possible s t) -> In (SInline (Some rt) sb) sels -> In y sb ->
                 obj_get (fst (sel_entry y)) m2 = obj_get (fst (sel_entry y)) m) ->
              is_some (deser_tagged (deser henv F2 env) "__typename" variants m2) = true ->
              exists x, obj_get "__typename" m = Some (JStr x) /\
                (if mem_str x (possible s t)
                 then forall sb y, In (SInline (Some x) sb) sels -> In y sb ->
                        wfield_ok s other (wrec fw) x m (sel_entry y) = true
                 else other = true)).
    { intros variants vn F2 m m2 fw Hv Hvo Huk2 Hsubm Hsame Hacc.
      destruct (UK_obj m2 Huk2) as [Hnd2 _].
      destruct (tagged_accepted _ "__typename" variants m2 Hnd2 Hacc) as [x [Hgx Hfx]].
      exists x. split; [exact (Hsubm _ _ Hgx)|].
      unfold variants_need in Hv.
      destruct (forallb (fun v => mem_str (variant_wire v) (possible s t) || v_other v) variants) eqn:Evall; [|discriminate].
      cbn [negb] in Hv. rewrite forallb_forall in Evall.
      destruct (mem_str x (possible s t)) eqn:Ex.
      - apply mem_str_In in Ex. intros sb y Hsb Hy.
        destruct (map_opt_in _ _ _ _ Hv Ex) as [nd [Hnd1 _]].
        destruct (find (fun v => String.eqb (variant_wire v) x) variants) as [var|]; [|discriminate].
        rewrite (assoc_inlines_in x sb sels Hinl Hsb) in Hnd1.
        destruct (v_payload var) as [[sv| | | |]|]; try discriminate.
        destruct (Hrec sv x sb nd Hnd1) as [_ [Hobj _]].
        destruct (Hrtfacts x Ex) as [Hndx [Hkx _]].
        pose proof (Hobj F2 _ (S fw) (UK_filter _ m2 Huk2) Hfx) as Hw. unfold wpos in Hw. rewrite Hkx in Hw.
        cbn [wobj] in Hw.
        pose proof (Hshape' _ Hsb) as Hsh. cbn [shape_ok] in Hsh.
        apply andb_true_iff in Hsh. destruct Hsh as [Hsh _]. apply andb_true_iff in Hsh. destruct Hsh as [Hfsb _].
        assert (Hndsb : NoDup (map (fun x0 => fst (sel_entry x0)) sb)).
        { rewrite mixed_is_flat_map in Hndx. pose proof (flat_map_seg_nodup (entries_of s x) sels _ Hndx Hsb) as H0.
          cbn [entries_of] in H0. rewrite (applies_object s x x Hkx), String.eqb_refl, map_map in H0. exact H0. }
        rewrite (collected_plain s frags x sb Hfsb Hndsb) in Hw. rewrite forallb_forall in Hw.
        specialize (Hw (sel_entry y) (in_map sel_entry _ _ Hy)).
        rewrite <- Hw. apply wfield_ok_ext.
        rewrite obj_get_filter.
        + symmetry. exact (Hsame x sb y Ex Hsb Hy).
        + intros v. cbn [fst]. apply negb_true_iff. apply String.eqb_neq.
          rewrite mixed_is_flat_map in Hndx.
          apply (flat_map_keys_disjoint (entries_of s x) sels (SInline (Some x) sb) (SField None "__typename" subt)
                   (sel_entry y) (sel_entry (SField None "__typename" subt)) Hndx Hsb Hxt); [discriminate| |left; reflexivity].
          cbn [entries_of]. rewrite (applies_object s x x Hkx), String.eqb_refl. apply in_map. exact Hy.
      - destruct other eqn:Eo; [reflexivity|]. exfalso.
        destruct (find (fun v => String.eqb (variant_wire v) x) variants) as [var|] eqn:Efv.
        + apply find_some in Efv. destruct Efv as [Hvin Hvw]. apply String.eqb_eq in Hvw.
          specialize (Evall var Hvin). rewrite Hvw, Ex in Evall. cbn [orb] in Evall.
          rewrite (Hvo eq_refl var Hvin) in Evall. discriminate.
        + destruct Hfx as [o Ho]. apply find_some in Ho. destruct Ho as [Hoin Hoo].
          rewrite (Hvo eq_refl o Hoin) in Hoo. discriminate. }
    destruct own as [|o1 orest] eqn:Eown.
    - (* the enum is the type *)
      destruct (find_item name env) as [[| |nm d c tag variants| | | | | |]|] eqn:Ef; try discriminate.
      destruct (String.eqb_spec tag "__typename") as [->|]; [|discriminate]. cbn [negb] in H.
      destruct (variants_need s rec t sels variants) as [vn|] eqn:Ev; [|discriminate].
      split; [|split].
      + intros [|F]; [reflexivity|]. cbn [deser]. rewrite (prim_deser_none name JNull Hprim), Ef. reflexivity.
      + intros F m fw Huk Hacc. destruct F as [|F]; [discriminate|]. cbn [deser] in Hacc.
        rewrite (prim_deser_none name (JObj m) Hprim), Ef in Hacc.
        destruct (Henum variants vn F m m (pred fw) Ev) as [x [Hgx Hx]]; try assumption.
        { intros Ho v Hv. exact (Hother Ho name nm d c "__typename" variants Ef v Hv). }
        { intros; assumption. }
        { intros; reflexivity. }
        unfold wpos. destruct (find_kind_sdl s t) as [[| | | | |]|]; try contradiction; rewrite Hgx;
          (destruct (mem_str x (possible s t)) eqn:Ex; [|exact Hx]);
          (apply mem_str_In in Ex; destruct (Hrtfacts x Ex) as [Hndx [Hkx _]];
           destruct fw as [|fw]; [reflexivity|]; cbn [wobj]; cbn [pred] in Hx;
           rewrite (collected_mixed s frags x sels Hshape Hndx);
           apply forallb_forall; intros e He; rewrite mixed_is_flat_map in He; apply in_flat_map in He;
           destruct He as [z [Hz Hez]]; destruct z as [a n sb|[v|] sb|]; cbn [entries_of] in Hez; try contradiction;
           [ destruct Hez as [<-|[]];
             assert (Hno : is_field (SField a n sb) && not_typename (SField a n sb) = false) by
               (destruct (is_field (SField a n sb) && not_typename (SField a n sb)) eqn:E; [|reflexivity];
                assert (Hin0 : In (SField a n sb) own) by (unfold own; apply filter_In; split; assumption);
                rewrite Eown in Hin0; destruct Hin0);
             cbn [is_field andb] in Hno; unfold not_typename in Hno; cbn [sel_entry fst snd] in Hno;
             apply negb_false_iff in Hno; cbn [sel_entry]; unfold wfield_ok; rewrite Hno; reflexivity
           | pose proof (Hshape' _ Hz) as Hsh; cbn [shape_ok] in Hsh; apply andb_true_iff in Hsh; destruct Hsh as [_ Hvk];
             assert (Hvk' : find_kind_sdl s v = Some KObject) by (destruct (find_kind_sdl s v) as [[]|]; try discriminate; reflexivity);
             rewrite (applies_object s x v Hvk') in Hez; destruct (String.eqb_spec x v) as [<-|]; [|contradiction];
             apply in_map_iff in Hez; destruct Hez as [y [<- Hy]]; exact (Hx sb y Hz Hy) ]).
      + intros F j Hacc. destruct F as [|F]; [discriminate|]. cbn [deser] in Hacc.
        rewrite (prim_deser_none name j Hprim), Ef in Hacc. destruct j; try discriminate. exact I.
    - (* a struct with the enum flattened last *)
      destruct (find_item name env) as [[nm d c fields| | | | | | | |]|] eqn:Ef; try discriminate.
      destruct (rev fields) as [|onf rplain] eqn:Erev; [discriminate|].
      destruct (strip_box (f_ty onf)) as [en| | | |] eqn:Een; try discriminate.
      destruct (find_item en env) as [[| |nm2 d2 c2 tag variants| | | | | |]|] eqn:Efe; try discriminate.
      match type of H with (if negb ?c then _ else _) = _ => destruct c eqn:EC2; [|discriminate] end. cbn [negb] in H.
      apply andb_true_iff in EC2; destruct EC2 as [EC2 Hprim2]. apply negb_true_iff in Hprim2.
      apply andb_true_iff in EC2; destruct EC2 as [Htag Hflat]. apply String.eqb_eq in Htag. subst tag.
      destruct (members_need s henv env rec t (rev rplain) (o1 :: orest)) as [needs|] eqn:Em; [|discriminate].
      destruct (variants_need s rec t sels variants) as [vn|] eqn:Ev; [|discriminate].
      assert (Hfields : fields = rev rplain ++ [onf]).
      { rewrite <- (rev_involutive fields), Erev. reflexivity. }
      rewrite <- Eown in Em. rewrite <- Eown in Hrtfacts.
      destruct (members_conds rec t (rev rplain) own needs Em) as [Hplain [Hw [Hi [Hlen Hpairs]]]].
      destruct (members_wires _ _ _ _ _ _ _ _ Em) as [_ Hwires].
      assert (Hownsel : forall x, In x own -> exists a n sub, x = SField a n sub /\ String.eqb n "__typename" = false /\ In x sels).
      { intros x Hx. unfold own in Hx. apply filter_In in Hx. destruct Hx as [Hxs Hx].
        apply andb_true_iff in Hx. destruct Hx as [Hxf Hxn]. destruct x as [a n sub| |]; try discriminate.
        exists a, n, sub. split; [reflexivity|]. unfold not_typename in Hxn. cbn [sel_entry fst snd] in Hxn.
        apply negb_true_iff in Hxn. split; [exact Hxn|exact Hxs]. }
      assert (Hwire_own : forall g, In g (rev rplain) -> exists a n sb, In (SField a n sb) sels /\
                  String.eqb n "__typename" = false /\ field_wire g = response_key a n).
      { intros g Hg. destruct (in_combine_exists (rev rplain) own g Hlen Hg) as [x Hx].
        destruct (Hwires g x Hx) as [a [n [sb [-> Hwk]]]].
        destruct (Hownsel _ (in_combine_r _ _ _ _ Hx)) as [a' [n' [sb' [E [Hn' Hxs]]]]]. inversion E; subst a' n' sb'.
        exists a, n, sb. repeat split; assumption. }
      assert (Hflatex : existsb f_flatten fields = true).
      { rewrite Hfields, existsb_app. cbn [existsb]. rewrite Hflat. rewrite orb_true_r. reflexivity. }
      split; [|split].
      + intros [|F]; [reflexivity|]. cbn [deser]. rewrite (prim_deser_none name JNull Hprim), Ef. reflexivity.
      + intros F m fw Huk Hacc. destruct F as [|F]; [discriminate|]. cbn [deser] in Hacc.
        rewrite (prim_deser_none name (JObj m) Hprim), Ef, Hfields in Hacc.
        destruct (UK_obj m Huk) as [Hmnd _].
        destruct (struct_on_accepted (deser henv F env) (deser henv F henv) env (rev rplain) onf en Hplain Hw Hi Hflat Een
                    (ex_intro _ nm2 (ex_intro _ d2 (ex_intro _ c2 (ex_intro _ "__typename" (ex_intro _ variants Efe))))) m Hmnd Hacc)
          as [Hmem Hon].
        destruct F as [|F2]; [discriminate|]. cbn [deser] in Hon. rewrite (prim_deser_none en _ Hprim2), Efe in Hon.
        (* keys of inline fragments are not claimed by the plain members *)
        assert (Hnotown : forall rt sb y, In rt (possible s t) -> In (SInline (Some rt) sb) sels -> In y sb ->
                   find_field (fst (sel_entry y)) (rev rplain) = None).
        { intros rt sb y Hrt Hsb Hy. apply find_field_absent. intros g Hg Hgw.
          destruct (Hwire_own g Hg) as [a [n [sb' [Hf [Hn Hwk]]]]].
          destruct (Hrtfacts rt Hrt) as [Hndr [Hkr _]]. rewrite mixed_is_flat_map in Hndr.
          apply (flat_map_keys_disjoint (entries_of s rt) sels (SInline (Some rt) sb) (SField a n sb')
                   (sel_entry y) (sel_entry (SField a n sb')) Hndr Hsb Hf); [discriminate| |left; reflexivity|].
          - cbn [entries_of]. rewrite (applies_object s rt rt Hkr), String.eqb_refl. apply in_map. exact Hy.
          - cbn [sel_entry fst]. rewrite <- Hwk, Hgw. reflexivity. }
        destruct (Henum variants vn F2 m (filter (not_own (rev rplain)) m) (pred fw) Ev) as [x [Hgx Hx]]; try assumption.
        { intros Ho v Hv. exact (Hother Ho en nm2 d2 c2 "__typename" variants Efe v Hv). }
        { apply UK_filter. exact Huk. }
        { intros k v Hk. exact (obj_get_filter_some _ m k v Hmnd Hk). }
        { intros rt sb y Hrt Hsb Hy. rewrite obj_get_filter; [reflexivity|].
          intros v. unfold not_own. cbn [fst]. rewrite (Hnotown rt sb y Hrt Hsb Hy). reflexivity. }
        unfold wpos. destruct (find_kind_sdl s t) as [[| | | | |]|]; try contradiction; rewrite Hgx;
          (destruct (mem_str x (possible s t)) eqn:Ex; [|exact Hx]);
          (apply mem_str_In in Ex; destruct (Hrtfacts x Ex) as [Hndx [Hkx Hownx]];
           destruct fw as [|fw]; [reflexivity|]; cbn [wobj]; cbn [pred] in Hx;
           rewrite (collected_mixed s frags x sels Hshape Hndx);
           apply forallb_forall; intros e He; rewrite mixed_is_flat_map in He; apply in_flat_map in He;
           destruct He as [z [Hz Hez]]; destruct z as [a n sb|[v|] sb|]; cbn [entries_of] in Hez; try contradiction;
           [ destruct Hez as [<-|[]];
             destruct (String.eqb n "__typename") eqn:En;
             [ cbn [sel_entry]; unfold wfield_ok; rewrite En; reflexivity
             | assert (Hxo : In (SField a n sb) own) by
                 (unfold own; apply filter_In; split; [exact Hz|]; cbn [is_field andb]; unfold not_typename;
                  cbn [sel_entry fst snd]; rewrite En; reflexivity);
               destruct (in_combine_exists_r (rev rplain) own _ Hlen Hxo) as [fd Hfd];
               destruct (Hpairs fd _ Hfd) as [nd Hpn];
               apply (member_sound rec Hrec t x fd a n sb nd fw (S F2) m Hpn En (Hownx _ Hxo) Huk);
               exact (Hmem fd (in_combine_l _ _ _ _ Hfd)) ]
           | pose proof (Hshape' _ Hz) as Hsh; cbn [shape_ok] in Hsh; apply andb_true_iff in Hsh; destruct Hsh as [_ Hvk];
             assert (Hvk' : find_kind_sdl s v = Some KObject) by (destruct (find_kind_sdl s v) as [[]|]; try discriminate; reflexivity);
             rewrite (applies_object s x v Hvk') in Hez; destruct (String.eqb_spec x v) as [<-|]; [|contradiction];
             apply in_map_iff in Hez; destruct Hez as [y [<- Hy]]; exact (Hx sb y Hz Hy) ]).
      + intros F j Hacc. destruct F as [|F]; [discriminate|]. cbn [deser] in Hacc.
        rewrite (prim_deser_none name j Hprim), Ef in Hacc. destruct j; try discriminate; [|exact I].
        rewrite Hflatex in Hacc. discriminate.
  Qed.


  Lemma lstr_eqb_eq a b : lstr_eqb a b = true -> a = b.
  Proof.
    revert b. induction a as [|x r IH]; intros [|y t0] H; cbn in H; try discriminate; [reflexivity|].
    apply andb_true_iff in H. destruct H as [H1 H2]. apply String.eqb_eq in H1. f_equal; [exact H1|exact (IH _ H2)].
  Qed.

  Lemma objs_exact rec : Exact rec ->
    forall name t sels B, find_kind_sdl s t = Some KObject -> has_spread sels = true ->
      objs_need s frags henv env rec name t sels = Some B ->
      (forall F, deser henv F env (RNamed name) JNull = None) /\
      (forall F m fw, UK (JObj m) -> is_some (deser henv F env (RNamed name) (JObj m)) = true -> wpos s frags other fw t sels m = true) /\
      (forall F j, is_some (deser henv F env (RNamed name) j) = true ->
         match j with JObj _ => True | JArr _ => find_kind_sdl s t = Some KObject | _ => False end).
  Proof.
    intros Hrec name t sels B Ek Hsp H. unfold objs_need in H.
    set (msels := filter (fun x => match x with SField _ _ _ => not_typename x | _ => true end) sels) in *.
    match type of H with (if negb ?c then _ else _) = _ => destruct c eqn:EC; [|discriminate] end. cbn [negb] in H.
    apply andb_true_iff in EC; destruct EC as [EC Hprim]. apply negb_true_iff in Hprim.
    apply andb_true_iff in EC; destruct EC as [EC Hnd]. apply nodup_str_NoDup in Hnd.
    apply andb_true_iff in EC; destruct EC as [Hshape Hsn]. apply nodup_str_NoDup in Hsn.
    destruct (find_item name env) as [[nm d c fields| | | | | | | |]|] eqn:Ef; try discriminate.
    set (own := filter (fun fd => negb (f_flatten fd)) fields) in *.
    match type of H with (if negb ?c then _ else _) = _ => destruct c eqn:EC2; [|discriminate] end. cbn [negb] in H.
    apply andb_true_iff in EC2; destruct EC2 as [EC2 Hlen]. apply Nat.eqb_eq in Hlen.
    apply andb_true_iff in EC2; destruct EC2 as [Hw Hi]. apply nodup_str_NoDup in Hw. apply nodup_str_NoDup in Hi.
    destruct (map_opt (fun p => smember_need s frags henv env rec t (fst p) (snd p)) (combine fields msels)) as [needs|] eqn:Em; [|discriminate].
    clear H.
    assert (Hpair : forall fd x, In (fd, x) (combine fields msels) -> exists nd, smember_need s frags henv env rec t fd x = Some nd).
    { intros fd x Hx. destruct (map_opt_in _ _ _ _ Em Hx) as [nd [Hpn _]]. exists nd. exact Hpn. }
    assert (Hmsel : forall x, In x msels -> In x sels).
    { intros x Hx. unfold msels in Hx. apply filter_In in Hx. exact (proj1 Hx). }
    (* what a spread member looks like *)
    assert (Hspread : forall fd n, In (fd, SSpread n) (combine fields msels) ->
              exists fsel a0 b0 c0 tf nd, frag_fields frags t n = Some fsel /\ f_flatten fd = true /\ strip_box (f_ty fd) = RNamed n /\
                find_item n env = Some (IStruct a0 b0 c0 tf) /\ existsb f_flatten tf = false /\
                map field_wire tf = map (fun y => fst (sel_entry y)) fsel /\ rec n t fsel = Some nd).
    { intros fd n Hx. destruct (Hpair fd _ Hx) as [nd Hpn]. unfold smember_need in Hpn.
      destruct (frag_fields frags t n) as [fsel|] eqn:Eff; [|discriminate].
      destruct (strip_box (f_ty fd)) as [n'| | | |] eqn:Est; try discriminate.
      destruct (find_item n env) as [[a0 b0 c0 tf| | | | | | | |]|] eqn:Efn; try discriminate.
      match type of Hpn with (if ?c then _ else _) = _ => destruct c eqn:EC3; [|discriminate] end.
      apply andb_true_iff in EC3; destruct EC3 as [EC3 Hwires]. apply andb_true_iff in EC3; destruct EC3 as [EC3 Hnf].
      apply andb_true_iff in EC3; destruct EC3 as [Hfl Hnn]. apply String.eqb_eq in Hnn. subst n'. apply negb_true_iff in Hnf.
      destruct fsel as [|y0 fs0] eqn:Efs; [discriminate|]. rewrite <- Efs in *.
      exists fsel, a0, b0, c0, tf, nd. repeat split; try assumption; try reflexivity. exact (lstr_eqb_eq _ _ Hwires). }
    assert (Hfieldm : forall fd a n sb, In (fd, SField a n sb) (combine fields msels) ->
              f_flatten fd = false /\ exists nd, pair_need s henv env rec t fd (SField a n sb) = Some nd).
    { intros fd a n sb Hx. destruct (Hpair fd _ Hx) as [nd Hpn]. unfold smember_need in Hpn.
      destruct (f_flatten fd); [discriminate|]. split; [reflexivity|exists nd; exact Hpn]. }
    assert (Hshape_fd : forall fd, In fd fields -> flat_plain env fd).
    { intros fd Hfd Hfl. destruct (in_combine_exists fields msels fd Hlen Hfd) as [x Hx].
      destruct x as [a n sb| |n].
      - destruct (Hfieldm fd a n sb Hx) as [E _]. congruence.
      - destruct (Hpair fd _ Hx) as [nd Hpn]. discriminate.
      - destruct (Hspread fd n Hx) as [fsel [a0 [b0 [c0 [tf [nd [_ [_ [Hst [Hfi [Hnf _]]]]]]]]]]].
        exists n, a0, b0, c0, tf. repeat split; assumption. }
    assert (Hnames : flat_map (names_of env) fields =
              flat_map (fun x => match x with
                                 | SSpread n => match frag_fields frags t n with
                                                | Some fsel => map fst (map sel_entry fsel) | None => [] end
                                 | _ => [] end) msels).
    { clear -Hfieldm Hspread Hpair Hlen. revert Hfieldm Hspread Hpair Hlen. generalize msels.
      induction fields as [|fd r IH]; intros [|x ms] Hfm Hs Hp Hl; try discriminate; [reflexivity|].
      cbn [flat_map]. f_equal.
      - destruct x as [a n sb| |n].
        + destruct (Hfm fd a n sb (or_introl eq_refl)) as [E _]. unfold names_of. rewrite E. reflexivity.
        + destruct (Hp fd _ (or_introl eq_refl)) as [nd Hpn]. discriminate.
        + destruct (Hs fd n (or_introl eq_refl)) as [fsel [a0 [b0 [c0 [tf [nd [Eff [Hfl [Hst [Hfi [_ [Hwr _]]]]]]]]]]]].
          unfold names_of. rewrite Hfl, Hst, Hfi, Eff, map_map. exact Hwr.
      - apply IH; [intros g a n sb Hg; apply Hfm; right; exact Hg|intros g n Hg; apply Hs; right; exact Hg|
                   intros g y Hg; apply Hp; right; exact Hg|exact (f_equal pred Hl)]. }
    assert (Hnamesnd : NoDup (flat_map (names_of env) fields)).
    { rewrite Hnames. unfold msels.
      apply (nodup_flat_map_sub (fun x => map fst (match x with
                       | SField _ _ _ => [sel_entry x]
                       | SSpread n0 => match frag_fields frags t n0 with Some fsel0 => map sel_entry fsel0 | None => [] end
                       | _ => [] end))).
      - unfold sentries in Hnd. clear -Hnd. revert Hnd. generalize sels. induction sels0 as [|x r IH]; intros H; [constructor|].
        cbn [flat_map] in *. rewrite map_app in H. apply NoDup_app_iff in H. destruct H as [H1 [H2 H3]].
        apply NoDup_app_iff. split; [exact H1|]. split; [exact (IH H2)|].
        intros k Hk Hin. apply (H3 k Hk). clear -Hin. induction r as [|y r' IHr]; [destruct Hin|].
        cbn [flat_map] in *. rewrite map_app. apply in_app_or in Hin. apply in_or_app. destruct Hin as [Hin|Hin]; [left; exact Hin|right; exact (IHr Hin)].
      - intros x. destruct x as [a n sb| |n]; [right; reflexivity|right; reflexivity|].
        destruct (frag_fields frags t n); [left; reflexivity|left; reflexivity]. }
    assert (Hflatex : existsb f_flatten fields = true).
    { unfold has_spread in Hsp. apply existsb_exists in Hsp. destruct Hsp as [x [Hx Hxs]]. destruct x as [| |n]; try discriminate.
      assert (Hxm : In (SSpread n) msels) by (unfold msels; apply filter_In; split; [exact Hx|reflexivity]).
      destruct (in_combine_exists_r fields msels _ Hlen Hxm) as [fd Hfd].
      destruct (Hspread fd n Hfd) as [_ [_ [_ [_ [_ [_ [_ [Hfl _]]]]]]]].
      apply existsb_exists. exists fd. split; [exact (in_combine_l _ _ _ _ Hfd)|exact Hfl]. }
    split; [|split].
    - intros [|F]; [reflexivity|]. cbn [deser]. rewrite (prim_deser_none name JNull Hprim), Ef. reflexivity.
    - intros F m fw Huk Hacc. unfold wpos. rewrite Ek.
      destruct fw as [|fw]; [reflexivity|]. cbn [wobj].
      assert (Hcoll : collected s frags t sels = sentries frags t sels).
      { unfold collected. destruct (List.length frags) as [|lf] eqn:Elf.
        - exfalso. destruct frags; [|discriminate]. unfold has_spread in Hsp. apply existsb_exists in Hsp.
          destruct Hsp as [x [Hx Hxs]]. destruct x as [| |n]; try discriminate.
          rewrite forallb_forall in Hshape. specialize (Hshape _ Hx). cbn in Hshape. discriminate.
        - rewrite (collect_spreads s frags lf t Ek sels [] Hshape Hsn (fun n _ X => X)). cbn [fst].
          apply merge_fields_nodup. exact Hnd. }
      rewrite Hcoll.
      destruct F as [|F]; [discriminate|]. cbn [deser] in Hacc. rewrite (prim_deser_none name (JObj m) Hprim), Ef in Hacc.
      destruct (UK_obj m Huk) as [Hmnd _].
      destruct (mixed_struct_accepted (deser henv F env) (deser henv F henv) env fields m Hw Hi Hmnd Hshape_fd Hnamesnd Hacc) as [Hown Hflat].
      fold own in Hown, Hflat.
      apply forallb_forall. intros e He. unfold sentries in He. apply in_flat_map in He. destruct He as [x [Hx Hex]].
      destruct x as [a n sb| |n]; try contradiction.
      + destruct Hex as [<-|[]]. destruct (String.eqb n "__typename") eqn:En.
        * cbn [sel_entry]. unfold wfield_ok. rewrite En. reflexivity.
        * assert (Hxm : In (SField a n sb) msels).
          { unfold msels. apply filter_In. split; [exact Hx|]. unfold not_typename. cbn [sel_entry fst snd]. rewrite En. reflexivity. }
          destruct (in_combine_exists_r fields msels _ Hlen Hxm) as [fd Hfd].
          destruct (Hfieldm fd a n sb Hfd) as [Hnfl [nd Hpn]].
          apply (member_sound rec Hrec t t fd a n sb nd fw F m Hpn En eq_refl Huk).
          apply Hown. unfold own. apply filter_In. split; [exact (in_combine_l _ _ _ _ Hfd)|rewrite Hnfl; reflexivity].
      + assert (Hxm : In (SSpread n) msels) by (unfold msels; apply filter_In; split; [exact Hx|reflexivity]).
        destruct (in_combine_exists_r fields msels _ Hlen Hxm) as [fd Hfd].
        destruct (Hspread fd n Hfd) as [fsel [a0 [b0 [c0 [tf [nd [Eff [Hfl [Hst [Hfi [Hnf [Hwr Hrn]]]]]]]]]]]].
        rewrite Eff in Hex. apply in_map_iff in Hex. destruct Hex as [y [<- Hy]].
        pose proof (Hflat fd (in_combine_l _ _ _ _ Hfd) Hfl n a0 b0 c0 tf Hst Hfi) as Hd.
        destruct (Hrec n t fsel nd Hrn) as [_ [Hobj _]].
        set (content := keys_in (map field_wire tf) (filter (not_own own) m)) in *.
        assert (Hukc : UK (JObj content)) by (unfold content, keys_in; apply UK_filter; apply UK_filter; exact Huk).
        pose proof (Hobj F content (S fw) Hukc Hd) as Hwc. unfold wpos in Hwc. rewrite Ek in Hwc. cbn [wobj] in Hwc.
        destruct (frag_fields_some frags t n fsel Eff) as [cc [Hac [_ [Hffl Hfnt]]]].
        assert (Hndf : NoDup (map (fun x0 => fst (sel_entry x0)) fsel)).
        { unfold sentries in Hnd.
          pose proof (flat_map_seg_nodup (fun x0 => match x0 with
                         | SField _ _ _ => [sel_entry x0]
                         | SSpread n0 => match frag_fields frags t n0 with Some fsel0 => map sel_entry fsel0 | None => [] end
                         | _ => [] end) sels (SSpread n) Hnd Hx) as H0.
          cbn beta iota in H0. rewrite Eff, map_map in H0. exact H0. }
        rewrite (collected_plain s frags t fsel Hffl Hndf) in Hwc. rewrite forallb_forall in Hwc.
        specialize (Hwc (sel_entry y) (in_map sel_entry _ _ Hy)).
        rewrite <- Hwc. apply wfield_ok_ext. unfold content, keys_in. rewrite obj_get_filter.
        * rewrite obj_get_filter; [reflexivity|].
          intros v. unfold not_own. cbn [fst]. rewrite find_field_absent; [reflexivity|].
          intros g Hg Hgw. unfold own in Hg. apply filter_In in Hg. destruct Hg as [Hgf Hgp]. apply negb_true_iff in Hgp.
          destruct (in_combine_exists fields msels g Hlen Hgf) as [x2 Hx2].
          destruct x2 as [a2 n2 sb2| |n2].
          -- destruct (Hfieldm g a2 n2 sb2 Hx2) as [_ [nd2 Hpn2]]. unfold pair_need in Hpn2.
             destruct (String.eqb_spec (field_wire g) (response_key a2 n2)) as [Hwk|]; [|discriminate].
             unfold sentries in Hnd.
             apply (flat_map_keys_disjoint _ sels (SSpread n) (SField a2 n2 sb2) (sel_entry y) (sel_entry (SField a2 n2 sb2)) Hnd Hx
                      (Hmsel _ (in_combine_r _ _ _ _ Hx2))); [discriminate| |left; reflexivity|].
             ++ cbn beta iota. rewrite Eff. apply in_map. exact Hy.
             ++ cbn [sel_entry fst]. rewrite <- Hwk, Hgw. reflexivity.
          -- destruct (Hpair g _ Hx2) as [nd2 Hpn2]. discriminate.
          -- destruct (Hspread g n2 Hx2) as [_ [_ [_ [_ [_ [_ [_ [Hfl2 _]]]]]]]]. congruence.
        * intros v. cbn [fst]. apply mem_str_In. rewrite Hwr. apply in_map_iff. exists y. split; [reflexivity|exact Hy].
    - intros F j Hacc. destruct F as [|F]; [discriminate|]. cbn [deser] in Hacc.
      rewrite (prim_deser_none name j Hprim), Ef in Hacc. destruct j; try discriminate; [|exact I].
      rewrite Hflatex in Hacc. discriminate.
  Qed.

  Theorem sel_exact : forall fuel, Exact (sel_need s frags henv env fuel).
  Proof.
    induction fuel as [|f IH]; intros name t sels B H; [discriminate|].
    cbn [sel_need] in H. remember (find_kind_sdl s t) as k eqn:Ek in H. symmetry in Ek.
    destruct k as [[| | | | |]|]; try discriminate.
    - destruct (has_spread sels) eqn:Ehs; [exact (objs_exact _ IH name t sels B Ek Ehs H)|exact (obj_exact _ IH name t sels B Ek H)].
    - apply (abs_exact _ IH name t sels B); [rewrite Ek; exact I|exact H].
    - apply (abs_exact _ IH name t sels B); [rewrite Ek; exact I|exact H].
  Qed.
End ExactCompose.

(* ---------- for a whole operation *)
Definition env_no_other (env : list ritem) : bool :=
  forallb (fun it => match it with ITagEnum _ _ _ _ vs => negb (existsb v_other vs) | _ => true end) env.

Lemma find_item_in n env it : find_item n env = Some it -> In it env.
Proof.
  induction env as [|x r IH]; [discriminate|]. cbn [find_item].
  destruct (String.eqb (item_name x) n); [intros H; inversion H; left; reflexivity|intros H; right; exact (IH H)].
Qed.

Lemma env_no_other_spec env : env_no_other env = true ->
  forall n a b c tag vs, find_item n env = Some (ITagEnum a b c tag vs) -> forall v, In v vs -> v_other v = false.
Proof.
  intros H n a b c tag vs Hf v Hv. unfold env_no_other in H. rewrite forallb_forall in H.
  specialize (H _ (find_item_in _ _ _ Hf)). cbn in H. apply negb_true_iff in H.
  destruct (v_other v) eqn:E; [|reflexivity]. exfalso.
  assert (existsb v_other vs = true) by (apply existsb_exists; exists v; split; assumption). congruence.
Qed.

(* the enforced part of conformance for the `data` of an operation *)
Definition enforced (s : aschema) (doc : list qdef) (op : string) (other : bool) (fw : nat) (data : json) : bool :=
  match find_op doc op with
  | Some (k, _, sels) =>
      match root_type s k, data with
      | Some root, JObj m => wobj s (frag_defs doc) other fw root sels m
      | Some _, JArr _ => true                   (* positional form of the root struct: not analysed *)
      | _, _ => false
      end
  | None => false
  end.

(* C03 by certificate: for a certified operation, whatever the deserializer accepts satisfies the
   enforced part of conformance, at every depth; so a payload that violates it is rejected *)
Theorem certified_accepts_only_enforced s henv env doc op other B :
  certify s henv env doc op = Some B ->
  (other = false -> env_no_other env = true) ->
  forall F data fw, UK data -> is_some (deser henv F env (RNamed "ResponseData") data) = true ->
  enforced s doc op other fw data = true.
Proof.
  unfold certify, enforced. intros H Ho F data fw Huk Hacc.
  destruct (find_op doc op) as [[[k vars] sels]|]; [|discriminate].
  destruct (root_type s k) as [root|]; [|discriminate].
  destruct (find_kind_sdl s root) as [[| | | | |]|] eqn:Ek; try discriminate.
  assert (Hother : other = false ->
            forall n a b c tag vs, find_item n env = Some (ITagEnum a b c tag vs) -> forall v, In v vs -> v_other v = false).
  { intros E. exact (env_no_other_spec env (Ho E)). }
  destruct (sel_exact s (frag_defs doc) henv env other Hother _ "ResponseData" root sels B H) as [_ [Hobj Hkind]].
  destruct data as [| | | | |l|m]; try (exact (False_ind _ (Hkind F _ Hacc))).
  - reflexivity.
  - pose proof (Hobj F m fw Huk Hacc) as Hw. unfold wpos in Hw. rewrite Ek in Hw. exact Hw.
Qed.

Corollary certified_rejects s henv env doc op other B :
  certify s henv env doc op = Some B ->
  (other = false -> env_no_other env = true) ->
  forall F data fw, UK data -> enforced s doc op other fw data = false ->
  deser henv F env (RNamed "ResponseData") data = None.
Proof.
  intros H Ho F data fw Huk Hen.
  destruct (deser henv F env (RNamed "ResponseData") data) as [v|] eqn:E; [|reflexivity].
  assert (Hacc : is_some (deser henv F env (RNamed "ResponseData") data) = true) by (rewrite E; reflexivity).
  rewrite (certified_accepts_only_enforced s henv env doc op other B H Ho F data fw Huk Hacc) in Hen. discriminate.
Qed.
