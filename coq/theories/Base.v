(* Base.v — shared definitions: strings, association lists, case-checking helpers.
   No proofs about the system here; only generic utilities. *)
From Coq Require Export List String Ascii Bool ZArith NArith Lia.
Export ListNotations.
Open Scope string_scope.
Open Scope list_scope.

Definition str_eqb := String.eqb.

Fixpoint mem_str (s : string) (l : list string) : bool :=
  match l with [] => false | x :: r => if String.eqb s x then true else mem_str s r end.

Lemma mem_str_In s l : mem_str s l = true <-> In s l.
Proof.
  induction l as [|x r IH]; cbn; [split; [discriminate|tauto]|].
  destruct (String.eqb_spec s x) as [->|Hne]; [tauto|].
  rewrite IH. split; [tauto|]. intros [H|H]; [congruence|exact H].
Qed.

Fixpoint assoc {A} (k : string) (l : list (string * A)) : option A :=
  match l with
  | [] => None
  | (k', v) :: r => if String.eqb k k' then Some v else assoc k r
  end.

Fixpoint nodup_str (l : list string) : bool :=
  match l with [] => true | x :: r => negb (mem_str x r) && nodup_str r end.

Lemma nodup_str_NoDup l : nodup_str l = true <-> NoDup l.
Proof.
  induction l as [|x r IH]; cbn; [split; [constructor|reflexivity]|].
  rewrite andb_true_iff, negb_true_iff, IH. split.
  - intros [Hm Hn]. constructor; [|exact Hn]. rewrite <- mem_str_In. congruence.
  - intros H. inversion H as [|? ? Hni Hnd]; subst. split; [|exact Hnd].
    destruct (mem_str x r) eqn:E; [|reflexivity]. apply mem_str_In in E. contradiction.
Qed.

(* indices (from i) of the elements on which f is false — what a cases file prints *)
Fixpoint fails_from {A} (f : A -> bool) (l : list A) (i : N) : list N :=
  match l with
  | [] => []
  | x :: r => if f x then fails_from f r (N.succ i) else i :: fails_from f r (N.succ i)
  end.
Definition fails {A} (f : A -> bool) (l : list A) : list N := fails_from f l 0%N.

Lemma fails_from_nil {A} (f : A -> bool) l i : fails_from f l i = [] -> forall x, In x l -> f x = true.
Proof.
  revert i; induction l as [|y r IH]; intros i H x Hx; [destruct Hx|].
  cbn in H. destruct (f y) eqn:E; [|discriminate].
  destruct Hx as [->|Hx]; [exact E|exact (IH _ H x Hx)].
Qed.

Definition opt_eqb {A} (e : A -> A -> bool) (a b : option A) : bool :=
  match a, b with Some x, Some y => e x y | None, None => true | _, _ => false end.

Fixpoint list_eqb {A} (e : A -> A -> bool) (a b : list A) : bool :=
  match a, b with
  | [], [] => true
  | x :: r, y :: s => e x y && list_eqb e r s
  | _, _ => false
  end.

Definition lstr_eqb := list_eqb String.eqb.

Fixpoint concat_str (l : list string) : string :=
  match l with [] => "" | x :: r => x ++ concat_str r end.

Fixpoint join_str (sep : string) (l : list string) : string :=
  match l with [] => "" | [x] => x | x :: r => x ++ sep ++ join_str sep r end.

(* result type with a distinguished panic (message-carrying Rust panic) *)
Inductive result (A : Type) := Ok (a : A) | Err (msg : string) | Panic (msg : string).
Arguments Ok {A} a. Arguments Err {A} msg. Arguments Panic {A} msg.

Definition bind {A B} (r : result A) (f : A -> result B) : result B :=
  match r with Ok a => f a | Err m => Err m | Panic m => Panic m end.
Notation "'do' x <- r ; k" := (bind r (fun x => k)) (at level 200, x pattern, r at level 100, k at level 200).

Definition is_ok {A} (r : result A) : bool := match r with Ok _ => true | _ => false end.
