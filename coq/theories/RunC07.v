(* RunC07.v — executable entry points for the C07 correspondence check. *)
From GC Require Import Base Rust TypeExpr Heck Strs Naming Enums Schema SchemaJson Query Attrs Codegen RunGen.

Record case := mkCase {
  c_gen : gcase;                                   (* the program, with the observation for the SDL rendering *)
  c_others : list (string * gobs);                 (* (rendering, observation) for the JSON renderings *)
  c_json_ast : list (string * json_schema)         (* the introspection documents the harness rendered, parsed back
                                                      (only those without `__` meta types) *)
}.

(* the model predicts the SDL observation *)
Definition corr (c : case) : bool := gen_corr (c_gen c).

(* the model of the JSON builder maps what the harness fed the implementation to the abstract
   schema the model of the SDL builder produces *)
Definition corr_json_builder (c : case) : bool :=
  match schema_of_sdl (g_schema (c_gen c)) with
  | Ok s => forallb (fun p => match schema_of_json (snd p) with Ok s' => aschema_eqb s s' | _ => false end) (c_json_ast c)
  | _ => true
  end.

(* the harness's renderer agrees with the specification `render` of the theorem *)
Definition corr_render (c : case) : bool :=
  forallb (fun p =>
    match schema_of_json (snd p), schema_of_json (render (g_schema (c_gen c)) false) with
    | Ok a, Ok b => aschema_eqb a b
    | Panic _, Panic _ | Err _, Err _ => true
    | _, _ => false
    end) (c_json_ast c).

(* the property: identical generated code for every rendering *)
Definition prop_same (c : case) : bool := forallb (fun p => gobs_eqb (g_obs (c_gen c)) (snd p)) (c_others c).

(* Known finding K16: the SDL reader folds `extend type` blocks only; `extend enum` / `extend input` blocks are
   dropped.  A case is in the class when the rendering written with those blocks is the ONLY one that differs. *)
Definition is_ext_rendering (n : string) : bool := String.eqb n "sdl with enum and input extensions".
Definition known_sdl_nonobject_extension_ignored (c : case) : bool :=
  negb (forallb (fun p => is_ext_rendering (fst p) || gobs_eqb (g_obs (c_gen c)) (snd p)) (c_others c) &&
        existsb (fun p => is_ext_rendering (fst p) && negb (gobs_eqb (g_obs (c_gen c)) (snd p))) (c_others c)).
