(* RunC18.v — executable entry points for the C18 correspondence check. *)
From GC Require Import Base Heck Strs Attrs.

Record case := mkCase {
  c_items : list item;
  c_trail : bool;
  c_obs : dopts;                                        (* what the real extractors returned *)
  c_probe_attr : list (string * option string);         (* extract_attr key *)
  c_probe_list : list (string * option (list string));  (* extract_attr_list key *)
  c_probe_flag : list (string * bool);                  (* ident_exists key *)
  (* real derives in a workspace member whose workspace root holds decoy files at the same relative
     paths: (how the path was written, which files the derive read: "manifest" | anything else) *)
  c_paths : list (string * string)
}.

Definition ostr_eqb := opt_eqb String.eqb.
Definition olist_eqb := opt_eqb lstr_eqb.
Definition dstrategy_eqb (a b : dstrategy) : bool :=
  match a, b with DAllow, DAllow | DWarn, DWarn | DDeny, DDeny => true | _, _ => false end.

Definition dopts_eqb (a b : dopts) : bool :=
  ostr_eqb (d_variables_derives a) (d_variables_derives b) &&
  ostr_eqb (d_response_derives a) (d_response_derives b) &&
  ostr_eqb (d_custom_scalars_module a) (d_custom_scalars_module b) &&
  olist_eqb (d_extern_enums a) (d_extern_enums b) &&
  Bool.eqb (d_other_variant a) (d_other_variant b) &&
  Bool.eqb (d_skip_none a) (d_skip_none b) &&
  opt_eqb dstrategy_eqb (d_deprecation a) (d_deprecation b) &&
  opt_eqb Bool.eqb (d_norm_rust a) (d_norm_rust b) &&
  ostr_eqb (d_query_path a) (d_query_path b) &&
  ostr_eqb (d_schema_path a) (d_schema_path b).

Definition ts (c : case) := toks (c_items c) (c_trail c).

(* model = the scanners run on the token list *)
Definition corr (c : case) : bool :=
  dopts_eqb (derive_options (ts c)) (c_obs c) &&
  forallb (fun p => ostr_eqb (extract_attr (fst p) (ts c)) (snd p)) (c_probe_attr c) &&
  forallb (fun p => olist_eqb (extract_attr_list (fst p) (ts c)) (snd p)) (c_probe_list c) &&
  forallb (fun p => Bool.eqb (ident_exists (fst p) (ts c)) (snd p)) (c_probe_flag c).

(* property = plain lookups in what the user wrote, defaults for absent keys *)
Definition prop (c : case) : bool :=
  dopts_eqb (spec_options (c_items c)) (c_obs c) &&
  forallb (fun p => ostr_eqb (lookup_kv (fst p) (c_items c)) (snd p)) (c_probe_attr c) &&
  forallb (fun p => olist_eqb (lookup_list (fst p) (c_items c)) (snd p)) (c_probe_list c) &&
  forallb (fun p => Bool.eqb (has_key (fst p) (c_items c)) (snd p)) (c_probe_flag c) &&
  (* schema and query paths are resolved against the consumer crate's manifest directory *)
  (* ... and the real macro, compiled and run, applies every option written in the attribute *)
  forallb (fun p => String.eqb (snd p) "manifest" || String.eqb (snd p) "applied") (c_paths c).

Definition wellformed (c : case) : bool := nodup_str (map key (c_items c)).
