(* PositionProofs.v — C13 at every position of the generator model: the ONE rule (TypeExpr.spec_rust)
   gives the type of a variable (whether or not it has a default value), of an input-object member and
   of an @oneOf member (whose variant carries the member's type with one `!` put in front), boxed or not;
   nothing but the type expression (and the name of its leaf) enters. *)
From GC Require Import Base Rust Json TypeExpr Heck Strs Naming Enums Schema Query Attrs Dfs Codegen Serde RespProofs BoxProofs.

(* the members of `Variables`, one per declared variable, in order: each type is the rule applied to the
   declared type expression — `vd_has_default` does not occur *)
Theorem variables_types o op : ro_vars op <> [] ->
  forallb (fun v => wf_gtype (vd_type v)) (ro_vars op) = true ->
  match variables_item o op with
  | IStruct _ _ _ fs =>
      Forall2 (fun v f => f_ty f = spec_rust (rename (vd_type v) (kw (norm_field_type o (gname (vd_type v))))))
              (ro_vars op) fs
  | _ => False
  end.
Proof.
  intros Hne Hwf. unfold variables_item. destruct (ro_vars op) as [|v0 r] eqn:E; [congruence|].
  rewrite <- E in *. clear E Hne v0 r.
  induction (ro_vars op) as [|v r IH]; cbn [map]; [constructor|].
  cbn [forallb] in Hwf. apply andb_true_iff in Hwf. destruct Hwf as [Hv Hr].
  constructor; [|exact (IH Hr)].
  cbn [f_ty]. rewrite (decorate_leaf (vd_type v) _ Hv). reflexivity.
Qed.

(* a default value changes nothing in the item *)
Theorem default_value_is_irrelevant o op op' :
  ro_name op = ro_name op' ->
  map (fun v => (vd_name v, vd_type v)) (ro_vars op) = map (fun v => (vd_name v, vd_type v)) (ro_vars op') ->
  variables_item o op = variables_item o op'.
Proof.
  intros _ H. unfold variables_item.
  destruct (ro_vars op) as [|v r] eqn:E, (ro_vars op') as [|v' r'] eqn:E'; try discriminate; [reflexivity|].
  rewrite <- E, <- E' in *. f_equal.
  clear E E' v r v' r'. revert H. generalize (ro_vars op'). induction (ro_vars op) as [|v r IH]; intros [|v' r'] H; try discriminate; [reflexivity|].
  cbn [map] in *. inversion H as [[Hn Ht Hr]]. rewrite Hn, Ht. f_equal. exact (IH _ Hr).
Qed.

(* an @oneOf member: the variant's payload is the rule applied to `T!` for the member's type T, boxed or not *)
Theorem oneof_member_type s o ty : wf_gtype (GNonNull ty) = true ->
  let t0 := spec_rust (rename (GNonNull ty) (norm_field_type o (gname ty))) in
  input_field_type s o ty true = t0 \/ input_field_type s o ty true = RBox t0.
Proof. exact (input_member_type s o ty true). Qed.
