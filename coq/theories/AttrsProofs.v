(* AttrsProofs.v — C18: the scanners of attributes.rs compute plain lookups on every
   arrangement (any subset, any order, optional trailing comma) of items with distinct keys. *)
From GC Require Import Base Heck Strs Attrs.

Definition top_idents (l : list tok) : list string :=
  flat_map (fun t => match t with TIdent s => [s] | _ => [] end) l.

Lemma top_idents_app a b : top_idents (a ++ b) = top_idents a ++ top_idents b.
Proof. unfold top_idents. apply flat_map_app. Qed.

Lemma toks_cons it rest trail : rest <> [] -> toks (it :: rest) trail = item_toks it ++ tcomma :: toks rest trail.
Proof. destruct rest; [congruence|reflexivity]. Qed.

Lemma top_idents_toks its trail : top_idents (toks its trail) = map key its.
Proof.
  induction its as [|it rest IH]; [reflexivity|].
  destruct rest as [|it2 rest'].
  - cbn [toks]. rewrite top_idents_app. destruct it, trail; reflexivity.
  - rewrite toks_cons by congruence. rewrite top_idents_app.
    change (map key (it :: it2 :: rest')) with (key it :: map key (it2 :: rest')).
    rewrite <- IH. destruct it; reflexivity.
Qed.

Lemma extract_none a : forall n l, List.length l <= n -> ~ In a (top_idents l) -> extract_attr a l = None.
Proof.
  induction n as [|n IH]; intros l Hl Hn.
  - destruct l; [reflexivity|cbn in Hl; lia].
  - destruct l as [|t rest]; [reflexivity|]. cbn in Hl.
    destruct t as [i|c|v|g]; cbn [extract_attr]; try (apply IH; [lia|]; exact Hn).
    destruct (String.eqb i a) eqn:E.
    + apply String.eqb_eq in E. subst. exfalso. apply Hn. cbn. left. reflexivity.
    + apply IH; [lia|]. intro X. apply Hn. cbn. right. exact X.
Qed.

Lemma extract_list_none a : forall l, ~ In a (top_idents l) -> extract_attr_list a l = None.
Proof.
  induction l as [|t rest IH]; intros Hn; [reflexivity|].
  destruct t as [i|c|v|g]; cbn [extract_attr_list]; try (apply IH; exact Hn).
  destruct (String.eqb i a) eqn:E.
  - apply String.eqb_eq in E. subst. exfalso. apply Hn. cbn. left. reflexivity.
  - apply IH. intro X. apply Hn. cbn. right. exact X.
Qed.

Lemma lookup_kv_none a its : ~ In a (map key its) -> lookup_kv a its = None.
Proof.
  induction its as [|it r IH]; intros H; [reflexivity|].
  destruct it as [k v|k|k vs tr]; cbn [lookup_kv]; cbn in H.
  - destruct (String.eqb_spec k a) as [->|Hne]; [exfalso; apply H; left; reflexivity|]. apply IH. tauto.
  - apply IH. tauto.
  - apply IH. tauto.
Qed.

Lemma lookup_list_none a its : ~ In a (map key its) -> lookup_list a its = None.
Proof.
  induction its as [|it r IH]; intros H; [reflexivity|].
  destruct it as [k v|k|k vs tr]; cbn [lookup_list]; cbn in H.
  - apply IH. tauto.
  - apply IH. tauto.
  - destruct (String.eqb_spec k a) as [->|Hne]; [exfalso; apply H; left; reflexivity|]. apply IH. tauto.
Qed.

Lemma group_lits_commas vs : group_lits (lits_commas vs) = vs.
Proof.
  induction vs as [|v r IH]; [reflexivity|].
  destruct r as [|v2 r2]; [reflexivity|].
  change (lits_commas (v :: v2 :: r2)) with (TLit v :: tcomma :: lits_commas (v2 :: r2)).
  cbn [group_lits flat_map app]. f_equal. exact IH.
Qed.

Lemma group_lits_commas_trail vs (tr : bool) : group_lits (lits_commas vs ++ (if tr then [tcomma] else [])) = vs.
Proof.
  unfold group_lits. rewrite flat_map_app. fold (group_lits (lits_commas vs)). rewrite group_lits_commas.
  destruct tr; cbn; rewrite app_nil_r; reflexivity.
Qed.

(* a token list of items never starts with a literal *)
Lemma toks_head_not_lit its trail v l : toks its trail = TLit v :: l -> False.
Proof.
  destruct its as [|it rest]; [discriminate|].
  destruct rest as [|it2 rest2].
  - destruct it, trail; discriminate.
  - rewrite toks_cons by congruence. destruct it; discriminate.
Qed.

Theorem extract_attr_eq : forall its trail a,
  NoDup (map key its) -> extract_attr a (toks its trail) = lookup_kv a its.
Proof.
  induction its as [|it rest IH]; intros trail a Hnd; [reflexivity|].
  inversion Hnd as [|k0 l0 Hnotin Hnd']; subst.
  assert (Hrestnone : ~ In a (map key rest) -> forall tr, extract_attr a (toks rest tr) = None).
  { intros H tr. apply (extract_none a (List.length (toks rest tr))); [lia|]. rewrite top_idents_toks. exact H. }
  destruct (String.eqb (key it) a) eqn:Ek.
  - apply String.eqb_eq in Ek.
    assert (Hna : ~ In a (map key rest)) by (rewrite <- Ek; exact Hnotin).
    destruct it as [k v0|k|k vs tr]; cbn in Ek; subst k.
    + (* KV a v0 *)
      cbn [lookup_kv]. rewrite String.eqb_refl.
      destruct rest; cbn; rewrite String.eqb_refl; reflexivity.
    + (* Flag a: swallows the separator and the next token; nothing else can match *)
      cbn [lookup_kv]. rewrite (lookup_kv_none a rest Hna).
      destruct rest as [|it2 rest2].
      * cbn. rewrite String.eqb_refl. destruct trail; reflexivity.
      * rewrite toks_cons by congruence. cbn [item_toks app extract_attr]. rewrite String.eqb_refl.
        assert (Hn2 : ~ In a (top_idents (toks (it2 :: rest2) trail))) by (rewrite top_idents_toks; exact Hna).
        remember (toks (it2 :: rest2) trail) as l eqn:El.
        destruct l as [|x l']; [reflexivity|]. unfold tcomma.
        destruct x as [i|c|v1|g].
        -- apply (extract_none a (List.length l')); [lia|]. intro X. apply Hn2. cbn. right. exact X.
        -- apply (extract_none a (List.length l')); [lia|]. exact Hn2.
        -- exfalso. symmetry in El. exact (toks_head_not_lit _ _ _ _ El).
        -- apply (extract_none a (List.length l')); [lia|]. exact Hn2.
    + (* KList a vs *)
      cbn [lookup_kv]. rewrite (lookup_kv_none a rest Hna).
      destruct rest as [|it2 rest2].
      * cbn. rewrite String.eqb_refl. destruct trail; reflexivity.
      * rewrite toks_cons by congruence. cbn [item_toks app extract_attr]. rewrite String.eqb_refl.
        unfold tcomma. apply Hrestnone. exact Hna.
  - apply String.eqb_neq in Ek.
    assert (Hskip : extract_attr a (toks (it :: rest) trail) = extract_attr a (toks rest trail)).
    { destruct rest as [|it2 rest2].
      - destruct it as [k v0|k|k vs tr]; cbn in Ek; cbn;
          (destruct (String.eqb k a) eqn:E; [apply String.eqb_eq in E; congruence|]); destruct trail; reflexivity.
      - rewrite toks_cons by congruence.
        destruct it as [k v0|k|k vs tr]; cbn in Ek; cbn [item_toks app extract_attr];
          (destruct (String.eqb k a) eqn:E; [apply String.eqb_eq in E; congruence|]); reflexivity. }
    rewrite Hskip, (IH trail a Hnd').
    destruct it as [k v0|k|k vs tr]; cbn in Ek; cbn [lookup_kv]; try reflexivity.
    destruct (String.eqb_spec k a); [congruence|reflexivity].
Qed.

Theorem extract_attr_list_eq : forall its trail a,
  NoDup (map key its) -> extract_attr_list a (toks its trail) = lookup_list a its.
Proof.
  induction its as [|it rest IH]; intros trail a Hnd; [reflexivity|].
  inversion Hnd as [|k0 l0 Hnotin Hnd']; subst.
  assert (Hrestnone : ~ In a (map key rest) -> forall tr, extract_attr_list a (toks rest tr) = None).
  { intros H tr. apply extract_list_none. rewrite top_idents_toks. exact H. }
  destruct (String.eqb (key it) a) eqn:Ek.
  - apply String.eqb_eq in Ek.
    assert (Hna : ~ In a (map key rest)) by (rewrite <- Ek; exact Hnotin).
    destruct it as [k v0|k|k vs tr]; cbn in Ek; subst k.
    + (* KV a v0: `=` is not a group; scanning continues and finds nothing *)
      cbn [lookup_list]. rewrite (lookup_list_none a rest Hna).
      destruct rest as [|it2 rest2].
      * cbn. rewrite String.eqb_refl. destruct trail; reflexivity.
      * rewrite toks_cons by congruence. cbn [item_toks app extract_attr_list]. rewrite String.eqb_refl.
        unfold tcomma. apply Hrestnone. exact Hna.
    + cbn [lookup_list]. rewrite (lookup_list_none a rest Hna).
      destruct rest as [|it2 rest2].
      * cbn. rewrite String.eqb_refl. destruct trail; reflexivity.
      * rewrite toks_cons by congruence. cbn [item_toks app extract_attr_list]. rewrite String.eqb_refl.
        unfold tcomma. apply Hrestnone. exact Hna.
    + cbn [lookup_list]. rewrite String.eqb_refl.
      destruct rest; cbn; rewrite String.eqb_refl, group_lits_commas_trail; reflexivity.
  - apply String.eqb_neq in Ek.
    assert (Hskip : extract_attr_list a (toks (it :: rest) trail) = extract_attr_list a (toks rest trail)).
    { destruct rest as [|it2 rest2].
      - destruct it as [k v0|k|k vs tr]; cbn in Ek; cbn;
          (destruct (String.eqb k a) eqn:E; [apply String.eqb_eq in E; congruence|]); destruct trail; reflexivity.
      - rewrite toks_cons by congruence.
        destruct it as [k v0|k|k vs tr]; cbn in Ek; cbn [item_toks app extract_attr_list];
          (destruct (String.eqb k a) eqn:E; [apply String.eqb_eq in E; congruence|]); reflexivity. }
    rewrite Hskip, (IH trail a Hnd').
    destruct it as [k v0|k|k vs tr]; cbn in Ek; cbn [lookup_list]; try reflexivity.
    destruct (String.eqb_spec k a); [congruence|reflexivity].
Qed.

Lemma ident_exists_top a l : ident_exists a l = mem_str a (top_idents l).
Proof.
  induction l as [|t r IH]; [reflexivity|].
  destruct t; cbn [ident_exists top_idents flat_map app mem_str]; try exact IH.
  fold (top_idents r). rewrite IH. rewrite String.eqb_sym.
  destruct (String.eqb a s); reflexivity.
Qed.

Theorem ident_exists_eq its trail a : ident_exists a (toks its trail) = has_key a its.
Proof. rewrite ident_exists_top, top_idents_toks. reflexivity. Qed.

Theorem derive_options_eq its trail :
  NoDup (map key its) -> derive_options (toks its trail) = spec_options its.
Proof.
  intros H. unfold derive_options, spec_options.
  rewrite !extract_attr_eq by exact H. rewrite extract_attr_list_eq by exact H.
  rewrite ident_exists_eq. reflexivity.
Qed.
