(* Dfs.v — the visited-set depth-first search used three times in the generator
   (schema.rs:398 contains_type_without_indirection, query/selection.rs contains_fragment,
   and — with a goal predicate — validation.rs selection_set_contains_type_name):
   the visited list is threaded through the siblings exactly like the `&mut` set.
   Generic over the successor function.  Definitions AND their general theory (no system-specific
   content here). *)
From GC Require Import Base.

Lemma filter_len_le {A} (p : A -> bool) l : List.length (filter p l) <= List.length l.
Proof. induction l as [|a l IH]; cbn; [lia|]. destruct (p a); cbn; lia. Qed.

Section Dfs.
  Variable succs : string -> list string.

  Fixpoint dfs (fuel : nat) (t : string) (vis : list string) (n : string) {struct fuel}
    : option (bool * list string) :=
    match fuel with
    | O => None
    | S fuel' =>
      (fix any (l : list string) (vis : list string) {struct l} : option (bool * list string) :=
         match l with
         | [] => Some (false, vis)
         | x :: rest =>
           if String.eqb x t then Some (true, vis)
           else if mem_str x vis then any rest vis
           else match dfs fuel' t vis x with
                | None => None
                | Some (true, vis') => Some (true, vis')
                | Some (false, vis') => any rest vis'
                end
         end) (succs n) (n :: vis)
    end.

  Definition any_loop (fuel' : nat) (t : string) :=
    fix any (l : list string) (vis : list string) {struct l} : option (bool * list string) :=
         match l with
         | [] => Some (false, vis)
         | x :: rest =>
           if String.eqb x t then Some (true, vis)
           else if mem_str x vis then any rest vis
           else match dfs fuel' t vis x with
                | None => None
                | Some (true, vis') => Some (true, vis')
                | Some (false, vis') => any rest vis'
                end
         end.

  Lemma dfs_S fuel t vis n : dfs (S fuel) t vis n = any_loop fuel t (succs n) (n :: vis).
  Proof. reflexivity. Qed.

  Definition edge (a b : string) : Prop := In b (succs a).
  Inductive path : string -> string -> Prop :=
  | path1 a b : edge a b -> path a b
  | pathS a b c : edge a b -> path b c -> path a c.

  Definition closed_new (t : string) (vis vis' : list string) : Prop :=
    forall x, In x vis' -> ~ In x vis -> forall y, In y (succs x) -> y <> t /\ In y vis'.

  Lemma false_inv fuel t : forall vis n vis', dfs fuel t vis n = Some (false, vis') ->
      incl (n :: vis) vis' /\ closed_new t vis vis'.
  Proof.
    induction fuel as [|fuel IH]; intros vis n vis' H; [discriminate|].
    rewrite dfs_S in H.
    assert (Hloop : forall l v0 v1, any_loop fuel t l v0 = Some (false, v1) ->
              incl v0 v1 /\ (forall y, In y l -> y <> t /\ In y v1) /\ closed_new t v0 v1).
    { induction l as [|y rest IHl]; intros v0 v1 Hl; cbn in Hl.
      - inversion Hl; subst. split; [apply incl_refl|]. split; [intros y []|]. intros x Hx Hnx; contradiction.
      - destruct (String.eqb_spec y t) as [Eyt|Eyt]; [discriminate|].
        destruct (mem_str y v0) eqn:Em.
        + apply mem_str_In in Em. destruct (IHl _ _ Hl) as (Hi & Hs & Hc).
          split; [exact Hi|]. split; [|exact Hc].
          intros y' [<-|Hin]; [split; [exact Eyt|apply Hi, Em]|apply Hs, Hin].
        + destruct (dfs fuel t v0 y) as [[[|] v2]|] eqn:Ec; try discriminate.
          destruct (IH _ _ _ Ec) as (Hi2 & Hc2). destruct (IHl _ _ Hl) as (Hi & Hs & Hc).
          split; [intros z Hz; apply Hi, Hi2; right; exact Hz|]. split.
          * intros y' [<-|Hin]; [split; [exact Eyt|apply Hi, Hi2; left; reflexivity]|apply Hs, Hin].
          * intros x Hx Hnx y' Hy'.
            destruct (in_dec string_dec x v2) as [Hx2|Hx2].
            -- destruct (Hc2 x Hx2 Hnx y' Hy') as [Hne Hin]. split; [exact Hne|apply Hi, Hin].
            -- apply (Hc x Hx Hx2 y' Hy'). }
    destruct (Hloop _ _ _ H) as (Hi & Hs & Hc). split; [exact Hi|].
    intros x Hx Hnx y Hyx.
    destruct (string_dec x n) as [->|Hne]; [apply Hs, Hyx|].
    apply (Hc x Hx); [|exact Hyx]. intros [E|E]; [congruence|contradiction].
  Qed.

  (* completeness: a cycle through n is found *)
  Theorem dfs_complete fuel n vis' : dfs fuel n [] n = Some (false, vis') -> ~ path n n.
  Proof.
    intros H Hp. destruct (false_inv _ _ _ _ _ H) as (Hi & Hc).
    assert (Hreach : forall a b, path a b -> In a vis' -> b <> n /\ In b vis').
    { intros a b P. induction P as [a b E|a b c E P IHP]; intros Ha.
      - apply (Hc a Ha (fun f => f) b E).
      - destruct (Hc a Ha (fun f => f) b E) as [_ Hb]. apply IHP, Hb. }
    destruct (Hreach _ _ Hp (Hi n (or_introl eq_refl))) as [Hne _]. congruence.
  Qed.

  (* soundness: true means a real path *)
  Lemma dfs_sound fuel t : forall vis n vis', dfs fuel t vis n = Some (true, vis') -> path n t.
  Proof.
    induction fuel as [|fuel IH]; intros vis n vis' H; [discriminate|].
    rewrite dfs_S in H.
    assert (Hloop : forall l v0 v1, incl l (succs n) -> any_loop fuel t l v0 = Some (true, v1) -> path n t).
    { induction l as [|y rest IHl]; intros v0 v1 Hincl Hl; cbn in Hl; [discriminate|].
      assert (Es : edge n y) by (apply Hincl; left; reflexivity).
      assert (Hr : incl rest (succs n)) by (intros z Hz; apply Hincl; right; exact Hz).
      destruct (String.eqb_spec y t) as [Eyt|Eyt].
      - subst. apply path1, Es.
      - destruct (mem_str y v0); [eapply IHl; eauto|].
        destruct (dfs fuel t v0 y) as [[[|] v2]|] eqn:Ec; try discriminate.
        + eapply pathS; [exact Es|eapply IH; exact Ec].
        + eapply IHl; eauto. }
    eapply Hloop; [apply incl_refl|exact H].
  Qed.

  (* ---------- termination: fuel >= number of unvisited nodes suffices *)
  Variable nodes : list string.
  Hypothesis succs_in_nodes : forall a b, edge a b -> In b nodes.

  Definition unvisited (vis : list string) : nat := List.length (filter (fun k => negb (mem_str k vis)) nodes).

  Lemma filter_le_mono {A} (p q : A -> bool) l :
    (forall x, In x l -> p x = true -> q x = true) -> List.length (filter p l) <= List.length (filter q l).
  Proof.
    induction l as [|a l IH]; intros H; cbn; [lia|].
    assert (IH' := IH (fun x Hx => H x (or_intror Hx))).
    destruct (p a) eqn:Ep.
    - rewrite (H a (or_introl eq_refl) Ep). cbn. lia.
    - destruct (q a); cbn; lia.
  Qed.

  Lemma unvisited_mono vis vis' : incl vis vis' -> unvisited vis' <= unvisited vis.
  Proof.
    intros Hi. apply filter_le_mono. intros x _ Hx.
    apply negb_true_iff in Hx. apply negb_true_iff.
    destruct (mem_str x vis) eqn:E; [|reflexivity].
    apply mem_str_In in E. apply Hi in E. apply mem_str_In in E. congruence.
  Qed.

  Lemma filter_lt_strict {A} (p q : A -> bool) l a :
    (forall x, In x l -> p x = true -> q x = true) -> In a l -> p a = false -> q a = true ->
    List.length (filter p l) < List.length (filter q l).
  Proof.
    induction l as [|b l IH]; intros H Hin Hp Hq; [contradiction|]. cbn.
    destruct Hin as [->|Hin].
    - rewrite Hp, Hq. cbn. assert (X := filter_le_mono p q l (fun x Hx => H x (or_intror Hx))). lia.
    - assert (IH' := IH (fun x Hx => H x (or_intror Hx)) Hin Hp Hq).
      destruct (p b) eqn:Ep.
      + rewrite (H b (or_introl eq_refl) Ep). cbn. lia.
      + destruct (q b); cbn; lia.
  Qed.

  Lemma unvisited_cons vis n : In n nodes -> ~ In n vis -> unvisited (n :: vis) < unvisited vis.
  Proof.
    intros Hn Hnv. unfold unvisited. apply filter_lt_strict with (a := n).
    - intros x _ Hx. apply negb_true_iff in Hx. apply negb_true_iff.
      cbn [mem_str] in Hx. destruct (String.eqb x n); [discriminate|exact Hx].
    - exact Hn.
    - cbn [mem_str]. rewrite String.eqb_refl. reflexivity.
    - apply negb_true_iff. destruct (mem_str n vis) eqn:E; [apply mem_str_In in E; contradiction|reflexivity].
  Qed.

  Lemma result_incl fuel t : forall vis n b vis', dfs fuel t vis n = Some (b, vis') -> incl (n :: vis) vis'.
  Proof.
    induction fuel as [|fuel IH]; intros vis n b vis' H; [discriminate|].
    rewrite dfs_S in H.
    assert (Hl : forall l v0 v1 b, any_loop fuel t l v0 = Some (b, v1) -> incl v0 v1).
    { induction l as [|y rest IHl]; intros v0 v1 b0 Hl; cbn in Hl.
      - inversion Hl; subst. apply incl_refl.
      - destruct (String.eqb y t); [inversion Hl; subst; apply incl_refl|].
        destruct (mem_str y v0); [eapply IHl; eauto|].
        destruct (dfs fuel t v0 y) as [[[|] v2]|] eqn:Ec; try discriminate.
        + inversion Hl; subst. intros z Hz. eapply IH; [exact Ec|right; exact Hz].
        + intros z Hz. eapply IHl; [exact Hl|]. eapply IH; [exact Ec|right; exact Hz]. }
    eapply Hl; exact H.
  Qed.

  Theorem dfs_terminates t : forall fuel vis n, In n nodes -> ~ In n vis -> unvisited vis <= fuel ->
    dfs fuel t vis n <> None.
  Proof.
    induction fuel as [|fuel IH]; intros vis n Hn Hnv Hf.
    - exfalso. assert (X := unvisited_cons vis n Hn Hnv). lia.
    - rewrite dfs_S.
      assert (HU : unvisited (n :: vis) <= fuel) by (assert (X := unvisited_cons vis n Hn Hnv); lia).
      assert (Hl : forall l v0, incl l (succs n) -> unvisited v0 <= fuel -> any_loop fuel t l v0 <> None).
      { induction l as [|y rest IHl]; intros v0 Hincl Hv; cbn; [discriminate|].
        assert (Hr : incl rest (succs n)) by (intros z Hz; apply Hincl; right; exact Hz).
        destruct (String.eqb y t); [discriminate|].
        destruct (mem_str y v0) eqn:Em; [apply IHl; assumption|].
        assert (Hs : In y nodes) by (apply (succs_in_nodes n y), Hincl; left; reflexivity).
        assert (Hns : ~ In y v0) by (intro X; apply mem_str_In in X; congruence).
        destruct (dfs fuel t v0 y) as [[[|] v2]|] eqn:Ec.
        - discriminate.
        - apply IHl; [exact Hr|]. apply result_incl in Ec.
          assert (X := unvisited_mono v0 v2 (fun z Hz => Ec z (or_intror Hz))). lia.
        - exfalso. exact (IH v0 y Hs Hns Hv Ec). }
      apply Hl; [apply incl_refl|exact HU].
  Qed.

  (* a node outside the universe has no work to do beyond its own successor list *)
  Lemma unvisited_le_nodes vis : unvisited vis <= List.length nodes.
  Proof. unfold unvisited. apply filter_len_le. Qed.
End Dfs.
