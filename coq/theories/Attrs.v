(* Attrs.v — token-tree model of `#[graphql(...)]` and of the scanners in
   graphql_query_derive/src/attributes.rs (extract_attr :35, extract_attr_list :64,
   ident_exists :11) and of the option record lib.rs:58 builds from them.  MODEL ONLY.
   Literals carry their DECODED value (decoding by syn::LitStr is trusted). *)
From GC Require Import Base Heck Strs.

Inductive tok := TIdent (s : string) | TPunct (c : ascii) | TLit (v : string) | TGroup (l : list tok).

(* `while let Some(item) = iter.next()`: on `ident == attr` one token is skipped, the next must
   be a literal; both `next()` calls consume *)
Fixpoint extract_attr (a : string) (l : list tok) {struct l} : option string :=
  match l with
  | [] => None
  | TIdent i :: rest =>
      if String.eqb i a then
        match rest with
        | _ :: TLit v :: _ => Some v
        | _ :: _ :: rest' => extract_attr a rest'
        | _ => None
        end
      else extract_attr a rest
  | _ :: rest => extract_attr a rest
  end.

Definition group_lits (g : list tok) : list string :=
  flat_map (fun t => match t with TLit v => [v] | _ => [] end) g.

(* on `ident == attr` the next token must be a group; its literals are the result (even if
   empty: `return Ok(result)`); None = Err("not found or empty") *)
Fixpoint extract_attr_list (a : string) (l : list tok) {struct l} : option (list string) :=
  match l with
  | [] => None
  | TIdent i :: rest =>
      if String.eqb i a then
        match rest with
        | TGroup g :: _ => Some (group_lits g)
        | _ :: rest' => extract_attr_list a rest'
        | [] => None
        end
      else extract_attr_list a rest
  | _ :: rest => extract_attr_list a rest
  end.

Fixpoint ident_exists (a : string) (l : list tok) : bool :=
  match l with
  | [] => false
  | TIdent i :: rest => String.eqb i a || ident_exists a rest
  | _ :: rest => ident_exists a rest
  end.

(* what a user writes *)
Inductive item := KV (k v : string) | Flag (k : string)
  | KList (k : string) (vs : list string) (inner_trail : bool).   (* key("a", "b",) *)
Definition key (it : item) : string := match it with KV k _ | Flag k | KList k _ _ => k end.
Definition tcomma := TPunct ","%char.
Fixpoint lits_commas (vs : list string) : list tok :=
  match vs with [] => [] | [v] => [TLit v] | v :: r => TLit v :: tcomma :: lits_commas r end.
Definition item_toks (it : item) : list tok :=
  match it with
  | KV k v => [TIdent k; TPunct "="%char; TLit v]
  | Flag k => [TIdent k]
  | KList k vs tr => [TIdent k; TGroup (lits_commas vs ++ (if tr then [tcomma] else []))]
  end.
Fixpoint toks (its : list item) (trail : bool) : list tok :=
  match its with
  | [] => []
  | [it] => item_toks it ++ (if trail then [tcomma] else [])
  | it :: rest => item_toks it ++ tcomma :: toks rest trail
  end.

(* the specification side: plain lookups in the item list *)
Fixpoint lookup_kv (a : string) (its : list item) : option string :=
  match its with
  | [] => None
  | KV k v :: r => if String.eqb k a then Some v else lookup_kv a r
  | _ :: r => lookup_kv a r
  end.
Fixpoint lookup_list (a : string) (its : list item) : option (list string) :=
  match its with
  | [] => None
  | KList k vs _ :: r => if String.eqb k a then Some vs else lookup_list a r
  | _ :: r => lookup_list a r
  end.
Definition has_key (a : string) (its : list item) : bool := mem_str a (map key its).

(* ---- options built by lib.rs:58 build_graphql_client_derive_options *)
Inductive dstrategy := DAllow | DWarn | DDeny.
Definition lower (s : string) : string := unchars (map to_lower (chars s)).
Definition parse_strategy (s : string) : option dstrategy :=
  let t := trim (lower s) in
  if String.eqb t "allow" then Some DAllow else if String.eqb t "deny" then Some DDeny
  else if String.eqb t "warn" then Some DWarn else None.
Definition parse_norm (s : string) : option bool :=         (* Some true = rust *)
  let t := trim (lower s) in
  if String.eqb t "none" then Some false else if String.eqb t "rust" then Some true else None.
Definition parse_bool (s : string) : option bool :=
  if String.eqb s "true" then Some true else if String.eqb s "false" then Some false else None.

Record dopts := mkDopts {
  d_variables_derives : option string;
  d_response_derives : option string;
  d_custom_scalars_module : option string;
  d_extern_enums : option (list string);
  d_other_variant : bool;
  d_skip_none : bool;
  d_deprecation : option dstrategy;      (* None = left at the default (warn) *)
  d_norm_rust : option bool;             (* None = left at the default (none) *)
  d_query_path : option string;
  d_schema_path : option string
}.

Definition opt_bind {A B} (o : option A) (f : A -> option B) : option B :=
  match o with Some x => f x | None => None end.

Definition derive_options (l : list tok) : dopts :=
  mkDopts (extract_attr "variables_derives" l) (extract_attr "response_derives" l)
          (extract_attr "custom_scalars_module" l) (extract_attr_list "extern_enums" l)
          (match opt_bind (extract_attr "fragments_other_variant" l) parse_bool with Some b => b | None => false end)
          (ident_exists "skip_serializing_none" l)
          (opt_bind (extract_attr "deprecated" l) parse_strategy)
          (opt_bind (extract_attr "normalization" l) parse_norm)
          (extract_attr "query_path" l) (extract_attr "schema_path" l).

(* the same record computed from the written items *)
Definition spec_options (its : list item) : dopts :=
  mkDopts (lookup_kv "variables_derives" its) (lookup_kv "response_derives" its)
          (lookup_kv "custom_scalars_module" its) (lookup_list "extern_enums" its)
          (match opt_bind (lookup_kv "fragments_other_variant" its) parse_bool with Some b => b | None => false end)
          (has_key "skip_serializing_none" its)
          (opt_bind (lookup_kv "deprecated" its) parse_strategy)
          (opt_bind (lookup_kv "normalization" its) parse_norm)
          (lookup_kv "query_path" its) (lookup_kv "schema_path" its).

(* path resolution lib.rs:42: format!("{}/{}", dir, query_path) / Path::new(dir).join(schema_path) *)
Definition resolve_query_path (dir p : string) : string := dir ++ "/" ++ p.
