(* Compose.v — C01, composition for the fragment-free, object-only subset, as a CERTIFYING CHECKER:
   `plain_ok` inspects the items of a module against a selection set; the theorem says that for
   any items the checker accepts, EVERY conforming payload (Conform.cobj, all sizes, all depths)
   is accepted by the deserializer of those items.  The checker is evaluated on the generator
   model's items per case; the theorem is about all payloads. *)
From GC Require Import Base Rust Json TypeExpr TypeExprProofs Schema Query Enums Serde SerdeLemmas Conform RespProofs.

(* ---------- one-directional version of the type-expression layer (no assumption on null) *)
Section TypeConforming.
  Variables (henv env : list ritem) (n : string) (leaf : json -> bool) (F0 : nat).
  Hypothesis Hleaf : forall F j, F0 <= F -> is_null j = false -> leaf j = true ->
                                 is_some (deser henv F env (RNamed n) j) = true.

  Lemma conforming_both t : wf_gtype t = true ->
    (forall F j, F0 + wraps t + 1 <= F -> ctype leaf true t j = true ->
       is_some (deser henv F env (spec_rust (rename t n)) j) = true) /\
    (match t with GNonNull _ => True | _ =>
       forall F j, F0 + wraps t <= F -> ctype leaf false t j = true ->
         is_some (deser henv F env (core (rename t n)) j) = true end).
  Proof.
    induction t as [m|u IH|u IH]; intros Hwf.
    - split.
      + intros F j HF Hc. destruct F as [|F]; [lia|]. cbn [rename spec_rust core].
        rewrite (deser_option henv env). cbn [ctype] in Hc.
        destruct (is_null j) eqn:E; [reflexivity|]. rewrite is_some_option_map.
        apply Hleaf; [cbn in HF; lia|exact E|exact Hc].
      + intros F j HF Hc. cbn [rename core]. cbn [ctype] in Hc.
        destruct (is_null j) eqn:E; [discriminate|]. apply Hleaf; [cbn in HF; lia|exact E|exact Hc].
    - cbn [wf_gtype] in Hwf. destruct (IH Hwf) as [IHs _].
      assert (Hcore : forall F j, F0 + wraps (GList u) <= F -> ctype leaf false (GList u) j = true ->
                is_some (deser henv F env (core (rename (GList u) n)) j) = true).
      { intros F j HF Hc. cbn [rename]. rewrite core_list. destruct F as [|F]; [cbn in HF; lia|].
        rewrite (deser_vec henv env). cbn [ctype] in Hc.
        destruct j; try discriminate. cbn [is_null] in Hc.
        rewrite is_some_option_map, is_some_map_opt. rewrite forallb_forall in Hc |- *.
        intros x Hx. apply IHs; [cbn [wraps] in HF; lia|apply Hc; exact Hx]. }
      split; [|exact Hcore].
      intros F j HF Hc. cbn [rename]. rewrite spec_nullable_list. destruct F as [|F]; [lia|].
      rewrite (deser_option henv env). destruct (is_null j) eqn:E; [reflexivity|].
      rewrite is_some_option_map.
      specialize (Hcore F j). cbn [rename] in Hcore. rewrite core_list in Hcore. apply Hcore; [lia|].
      cbn [ctype] in Hc |- *. rewrite E in Hc |- *. exact Hc.
    - split; [|exact I]. cbn [wf_gtype] in Hwf.
      destruct u as [m|v|v]; [| |discriminate].
      + destruct (IH Hwf) as [_ IHc]. intros F j HF Hc. cbn [rename spec_rust]. cbn [ctype] in Hc.
        apply IHc; [cbn [wraps] in *; lia|exact Hc].
      + destruct (IH Hwf) as [_ IHc]. intros F j HF Hc. cbn [rename spec_rust]. cbn [ctype] in Hc.
        specialize (IHc F j). cbn [rename] in IHc. apply IHc; [cbn [wraps] in *; lia|exact Hc].
  Qed.

  Theorem field_type_accepts_conforming t r : wf_gtype t = true -> decorate n (quals_sdl t) = Some r ->
    forall F j, F0 + wraps t + 1 <= F -> ctype leaf true t j = true -> is_some (deser henv F env r j) = true.
  Proof.
    intros Hwf Hd. rewrite (decorate_leaf t n Hwf) in Hd. inversion Hd; subst r.
    exact (proj1 (conforming_both t Hwf)).
  Qed.
End TypeConforming.

(* ---------- selections that consist of fields only *)
Definition is_field (x : sel) : bool := match x with SField _ _ _ => true | _ => false end.
Definition sel_entry (x : sel) : string * (string * list sel) :=
  match x with SField a n sub => (response_key a n, (n, sub)) | _ => ("", ("", [])) end.

Section Plain.
  Variable s : aschema.
  Variable frags : list (string * (string * list sel)).

  Lemma collect_fields_plain fuel rt visited sels : forallb is_field sels = true ->
    collect_fields s frags (S fuel) rt visited sels = (map sel_entry sels, visited).
  Proof.
    intros H. cbn [collect_fields].
    induction sels as [|x r IH]; [reflexivity|].
    cbn [forallb] in H. apply andb_true_iff in H. destruct H as [Hx Hr].
    destruct x as [a n sub| |]; try discriminate.
    rewrite (IH Hr). reflexivity.
  Qed.

  Lemma merge_into_fresh acc k n sub : ~ In k (map fst acc) -> merge_into acc k n sub = acc ++ [(k, (n, sub))].
  Proof.
    induction acc as [|[k' [n' sub']] r IH]; intros H; [reflexivity|].
    cbn [merge_into]. destruct (String.eqb_spec k k') as [->|Hne].
    - exfalso. apply H. left. reflexivity.
    - cbn [app]. f_equal. apply IH. intros X. apply H. right. exact X.
  Qed.

  Lemma merge_fields_nodup_aux l : forall acc, NoDup (map fst acc ++ map fst l) ->
    fold_left (fun acc e => merge_into acc (fst e) (fst (snd e)) (snd (snd e))) l acc = acc ++ l.
  Proof.
    induction l as [|[k [n sub]] r IH]; intros acc H; cbn [fold_left]; [rewrite app_nil_r; reflexivity|].
    cbn [fst snd]. rewrite merge_into_fresh.
    - rewrite IH.
      + rewrite <- app_assoc. reflexivity.
      + rewrite map_app, <- app_assoc. exact H.
    - cbn [map fst] in H. apply NoDup_remove_2 in H. intros X. apply H. apply in_or_app. left. exact X.
  Qed.

  Lemma merge_fields_nodup l : NoDup (map fst l) -> merge_fields l = l.
  Proof. intros H. unfold merge_fields. rewrite merge_fields_nodup_aux; [reflexivity|exact H]. Qed.

  Lemma collected_plain rt sels : forallb is_field sels = true -> NoDup (map (fun x => fst (sel_entry x)) sels) ->
    collected s frags rt sels = map sel_entry sels.
  Proof.
    intros Hf Hnd. unfold collected. rewrite collect_fields_plain by exact Hf. cbn [fst].
    apply merge_fields_nodup. rewrite map_map. exact Hnd.
  Qed.
End Plain.


(* ---------- ID leaves: the three helpers of graphql_client::serde_with, over the TRANSLATED
   declaration of IntOrString *)
Definition henv_ok (henv : list ritem) : bool :=
  match find_item "IntOrString" henv with
  | Some (IUntagged _ _ [v1; v2]) =>
      String.eqb (v_ident v1) "Int" && opt_eqb rtype_eqb (v_payload v1) (Some (RNamed "i64")) &&
      String.eqb (v_ident v2) "Str" && opt_eqb rtype_eqb (v_payload v2) (Some (RNamed "String"))
  | _ => false
  end.

Definition id_leaf (j : json) : bool := match j with JStr _ => true | JInt z => in_i64 z | _ => false end.

Section IdLeaves.
  Variable henv : list ritem.
  Hypothesis Hh : henv_ok henv = true.

  Lemma henv_items : exists n d r1 o1 r2 o2,
    find_item "IntOrString" henv =
      Some (IUntagged n d [mkVariant "Int" r1 (Some (RNamed "i64")) o1; mkVariant "Str" r2 (Some (RNamed "String")) o2]).
  Proof.
    pose proof Hh as H0. unfold henv_ok in H0.
    destruct (find_item "IntOrString" henv) as [[| | | |n d [|v1 [|v2 [|? ?]]]| | | |]|]; try discriminate.
    destruct v1 as [i1 r1 [p1|] o1]; cbn [v_ident v_payload opt_eqb] in H0;
      [|rewrite andb_false_r in H0; cbn in H0; discriminate].
    destruct v2 as [i2 r2 [p2|] o2]; cbn [v_ident v_payload opt_eqb] in H0; [|rewrite andb_false_r in H0; discriminate].
    apply andb_true_iff in H0. destruct H0 as [H0 H4]. apply andb_true_iff in H0. destruct H0 as [H0 H3].
    apply andb_true_iff in H0. destruct H0 as [H1 H2].
    apply String.eqb_eq in H1. apply String.eqb_eq in H3. apply rtype_eqb_eq in H2. apply rtype_eqb_eq in H4.
    subst. exists n, d, r1, o1, r2, o2. reflexivity.
  Qed.

  Lemma ios_eval F j :
    deser henv (S (S F)) henv (RNamed "IntOrString") j =
      match j with
      | JInt z => if in_i64 z then Some (VVariant "Int" (Some (VInt z))) else None
      | JStr x => Some (VVariant "Str" (Some (VStr x)))
      | _ => None
      end.
  Proof.
    destruct henv_items as [n [d [r1 [o1 [r2 [o2 E]]]]]].
    cbn [deser]. change (prim_deser "IntOrString" j) with (@None (option rvalue)). cbv iota. rewrite E.
    cbn [deser_untagged v_payload v_ident]. cbn [deser].
    destruct j; cbn; try reflexivity. destruct (in_i64 z); reflexivity.
  Qed.

  Lemma int_or_string_accepts F j : id_leaf j = true ->
    is_some (int_or_string (deser henv (S (S F)) henv) j) = true.
  Proof.
    intros Hl. unfold int_or_string. rewrite ios_eval.
    destruct j; try discriminate; cbn in Hl; [rewrite Hl|]; reflexivity.
  Qed.

  Lemma option_id_accepts F j : (is_null j = true \/ id_leaf j = true) ->
    deser henv (S (S (S F))) henv (ROption (RNamed "IntOrString")) j = Some VNone \/
    (exists z, deser henv (S (S (S F))) henv (ROption (RNamed "IntOrString")) j = Some (VSome (VVariant "Int" (Some (VInt z))))) \/
    (exists x, deser henv (S (S (S F))) henv (ROption (RNamed "IntOrString")) j = Some (VSome (VVariant "Str" (Some (VStr x))))).
  Proof.
    intros Hl.
    change (deser henv (S (S (S F))) henv (ROption (RNamed "IntOrString")) j)
      with (if is_null j then Some VNone else option_map VSome (deser henv (S (S F)) henv (RNamed "IntOrString") j)).
    destruct (is_null j) eqn:En; [left; reflexivity|]. destruct Hl as [Hl|Hl]; [discriminate|].
    rewrite ios_eval. destruct j; try discriminate; cbn in Hl.
    - rewrite Hl. right. left. exists z. reflexivity.
    - right. right. exists s. reflexivity.
  Qed.

  (* IdContainer: any Option / Vec nesting *)
  Lemma id_container_both F t : wf_gtype t = true ->
    (forall j, ctype id_leaf true t j = true ->
       is_some (id_container_deser (deser henv (S (S F)) henv) (spec_rust (rename t "ID")) j) = true) /\
    (match t with GNonNull _ => True | _ =>
       forall j, ctype id_leaf false t j = true ->
         is_some (id_container_deser (deser henv (S (S F)) henv) (core (rename t "ID")) j) = true end).
  Proof.
    induction t as [m|u IH|u IH]; intros Hwf.
    - split.
      + intros j Hc. cbn [rename spec_rust core id_container_deser]. cbn [ctype] in Hc.
        destruct (is_null j) eqn:E; [reflexivity|]. rewrite is_some_option_map. apply int_or_string_accepts. exact Hc.
      + intros j Hc. cbn [rename core id_container_deser]. cbn [ctype] in Hc.
        destruct (is_null j); [discriminate|]. apply int_or_string_accepts. exact Hc.
    - cbn [wf_gtype] in Hwf. destruct (IH Hwf) as [IHs _].
      assert (Hcore : forall j, ctype id_leaf false (GList u) j = true ->
                is_some (id_container_deser (deser henv (S (S F)) henv) (core (rename (GList u) "ID")) j) = true).
      { intros j Hc. cbn [rename]. rewrite core_list. cbn [id_container_deser]. cbn [ctype] in Hc.
        destruct j; try discriminate. cbn [is_null] in Hc.
        rewrite is_some_option_map, is_some_map_opt. rewrite forallb_forall in Hc |- *.
        intros x Hx. apply IHs. apply Hc. exact Hx. }
      split; [|exact Hcore].
      intros j Hc. cbn [rename]. rewrite spec_nullable_list. cbn [id_container_deser].
      destruct (is_null j) eqn:E; [reflexivity|]. rewrite is_some_option_map.
      specialize (Hcore j). cbn [rename] in Hcore. rewrite core_list in Hcore. apply Hcore.
      cbn [ctype] in Hc |- *. rewrite E in Hc |- *. exact Hc.
    - split; [|exact I]. cbn [wf_gtype] in Hwf.
      destruct u as [m|v|v]; [| |discriminate].
      + destruct (IH Hwf) as [_ IHc]. intros j Hc. cbn [rename spec_rust]. cbn [ctype] in Hc. apply IHc. exact Hc.
      + destruct (IH Hwf) as [_ IHc]. intros j Hc. cbn [rename spec_rust]. cbn [ctype] in Hc.
        specialize (IHc j). cbn [rename] in IHc. apply IHc. exact Hc.
  Qed.
End IdLeaves.

(* ---------- building blocks for abstract positions: a struct whose last member is the flattened
   `on` enum, and the internally tagged enum itself *)
Lemma filter_key_single (m : list (string * json)) k v :
  NoDup (map fst m) -> obj_get k m = Some v -> filter (fun e => String.eqb (fst e) k) m = [(k, v)].
Proof.
  induction m as [|[k' v'] r IH]; intros Hnd Hg; [discriminate|].
  inversion Hnd as [|? ? Hk Hnd']; subst. cbn [obj_get] in Hg. cbn [filter fst].
  destruct (String.eqb_spec k k') as [->|Hne].
  - inversion Hg; subst. rewrite String.eqb_refl. f_equal.
    clear -Hk. induction r as [|[k2 v2] r IH]; [reflexivity|]. cbn [filter fst].
    destruct (String.eqb_spec k2 k') as [->|]; [exfalso; apply Hk; left; reflexivity|].
    apply IH. intros X. apply Hk. right. exact X.
  - destruct (String.eqb_spec k' k) as [E|_]; [congruence|]. exact (IH Hnd' Hg).
Qed.

Lemma obj_get_filter (p : string * json -> bool) (m : list (string * json)) k :
  (forall v, p (k, v) = true) -> obj_get k (filter p m) = obj_get k m.
Proof.
  intros Hp. induction m as [|[k' v'] r IH]; [reflexivity|]. cbn [filter obj_get].
  destruct (String.eqb_spec k k') as [->|Hne].
  - rewrite Hp. cbn [obj_get]. rewrite String.eqb_refl. reflexivity.
  - destruct (p (k', v')); [cbn [obj_get]; destruct (String.eqb_spec k k'); [congruence|exact IH]|exact IH].
Qed.

Lemma nodup_keys_filter (p : string * json -> bool) (m : list (string * json)) :
  NoDup (map fst m) -> NoDup (map fst (filter p m)).
Proof.
  induction m as [|e r IH]; intros H; [constructor|]. inversion H as [|? ? Hk Hnd]; subst. cbn [filter].
  destruct (p e); [|exact (IH Hnd)]. cbn [map]. constructor; [|exact (IH Hnd)].
  intros X. apply Hk. apply in_map_iff in X. destruct X as [x [E Hx]]. apply filter_In in Hx.
  apply in_map_iff. exists x. split; [exact E|exact (proj1 Hx)].
Qed.

Section OnStruct.
  Variables (D Dh : rtype -> json -> option rvalue) (env : list ritem).
  Variables (plain : list rfield) (on : rfield) (en : string).
  Hypothesis Hplain : forallb (fun fd => negb (f_flatten fd)) plain = true.
  Hypothesis Hw : NoDup (map field_wire plain).
  Hypothesis Hi : NoDup (map f_ident plain).
  Hypothesis Hon : f_flatten on = true.
  Hypothesis Hty : strip_box (f_ty on) = RNamed en.
  Hypothesis Hen : exists a b c t vs, find_item en env = Some (ITagEnum a b c t vs).

  Lemma filter_plain_on : filter (fun fd => negb (f_flatten fd)) (plain ++ [on]) = plain.
  Proof.
    rewrite filter_app. cbn [filter]. rewrite Hon. cbn [negb]. rewrite app_nil_r.
    clear -Hplain. induction plain as [|fd r IH]; [reflexivity|]. cbn [forallb filter] in *.
    apply andb_true_iff in Hplain. destruct Hplain as [H1 H2]. rewrite H1. f_equal. exact (IH H2).
  Qed.

  Lemma serve_plain_prefix seen buf : forall l, forallb (fun fd => negb (f_flatten fd)) l = true ->
    (forall fd, In fd l -> field_value seen fd <> None) ->
    forall tail, is_some (serve D env seen tail buf) = true -> is_some (serve D env seen (l ++ tail) buf) = true.
  Proof.
    induction l as [|fd r IH]; intros Hp Hv tail Ht; [exact Ht|].
    cbn [forallb] in Hp. apply andb_true_iff in Hp. destruct Hp as [H1 H2]. apply negb_true_iff in H1.
    cbn [app serve]. rewrite H1.
    destruct (field_value seen fd) as [v|] eqn:Ev; [|exfalso; exact (Hv fd (or_introl eq_refl) Ev)].
    specialize (IH H2 (fun g Hg => Hv g (or_intror Hg)) tail Ht).
    destruct (serve D env seen (r ++ tail) buf); [reflexivity|discriminate IH].
  Qed.

  Theorem struct_on_accepts m :
    NoDup (map fst m) ->
    (forall fd, In fd plain -> member_ok D Dh m fd <> None) ->
    is_some (D (RNamed en) (JObj (filter (not_own plain) m))) = true ->
    is_some (deser_struct D Dh env (plain ++ [on]) m) = true.
  Proof.
    intros Hnd Hok Hd. unfold deser_struct. rewrite filter_plain_on.
    destruct (claim_ok (deser_field D Dh) plain Hw Hi m Hnd) as [seen [Hc Hs]].
    - intros k v f Hin Ef. destruct (find_field_some _ _ _ Ef) as [Hfin Hfw].
      specialize (Hok f Hfin). unfold member_ok in Hok.
      assert (Hg : obj_get (field_wire f) m = Some v).
      { rewrite Hfw. clear -Hnd Hin. induction m as [|[k' v'] r IH]; [destruct Hin|].
        cbn [obj_get]. inversion Hnd as [|? ? Hk Hnd']; subst.
        destruct Hin as [E|Hin].
        - inversion E; subst. rewrite String.eqb_refl. reflexivity.
        - destruct (String.eqb_spec k k') as [->|Hne]; [|exact (IH Hnd' Hin)].
          exfalso. apply Hk. change k' with (fst (k', v)). apply in_map. exact Hin. }
      rewrite Hg in Hok. destruct (deser_field D Dh f v) as [x|]; [exists x; reflexivity|congruence].
    - rewrite Hc. rewrite is_some_option_map.
      apply serve_plain_prefix; [exact Hplain| |].
      + intros fd Hfd. specialize (Hok fd Hfd). unfold member_ok in Hok. unfold field_value.
        rewrite (Hs fd Hfd). destruct (obj_get (field_wire fd) m) as [v|].
        * destruct (deser_field D Dh fd v); [discriminate|congruence].
        * unfold field_value in Hok. cbn [assoc] in Hok. exact Hok.
      + cbn [serve]. rewrite Hon, Hty. destruct Hen as [a [b [c [t [vs E]]]]]. rewrite E.
        destruct (D (RNamed en) (JObj (filter (not_own plain) m))); [reflexivity|discriminate Hd].
  Qed.
End OnStruct.

Lemma tagged_accepts (D : rtype -> json -> option rvalue) tag variants (m : list (string * json)) rt var :
  NoDup (map fst m) -> obj_get tag m = Some (JStr rt) ->
  find (fun v => String.eqb (variant_wire v) rt) variants = Some var ->
  match v_payload var with
  | None => True
  | Some pt => is_some (D pt (JObj (filter (fun e => negb (String.eqb (fst e) tag)) m))) = true
  end ->
  is_some (deser_tagged D tag variants m) = true.
Proof.
  intros Hnd Hg Hf Hp. unfold deser_tagged. rewrite (filter_key_single m tag (JStr rt) Hnd Hg). rewrite Hf.
  destruct (v_payload var) as [pt|]; [|reflexivity]. rewrite is_some_option_map. exact Hp.
Qed.

Definition top_nullable (t : gtype) : bool := match t with GNonNull _ => false | _ => true end.

(* equality of field definitions, for "the object declares the interface's field as the interface does" *)
Definition gtype_eqb_gen := fix go (a b : gtype) : bool :=
  match a, b with
  | GNamed x, GNamed y => String.eqb x y
  | GList x, GList y | GNonNull x, GNonNull y => go x y
  | _, _ => false
  end.
Definition fd_eqb_gen (a b : fielddef) : bool := String.eqb (fd_name a) (fd_name b) && gtype_eqb_gen (fd_type a) (fd_type b).
Lemma gtype_eqb_gen_eq a b : gtype_eqb_gen a b = true -> a = b.
Proof.
  revert b. induction a as [x|x IH|x IH]; intros [y|y|y]; cbn; try discriminate.
  - intros H. apply String.eqb_eq in H. congruence.
  - intros H. f_equal. exact (IH y H).
  - intros H. f_equal. exact (IH y H).
Qed.

(* ---------- the certifying checker *)
Definition prim_names : list string := ["String"; "i64"; "i32"; "f64"; "bool"; "serde_json::Value"; "()"].
Definition is_prim (n : string) : bool := mem_str n prim_names.

Lemma prim_deser_none n j : is_prim n = false -> prim_deser n j = None.
Proof.
  unfold is_prim, prim_names, prim_deser. cbn [mem_str]. intros H.
  repeat match type of H with
         | (if String.eqb ?a ?b then true else _) = false => destruct (String.eqb a b); [discriminate|]
         end.
  reflexivity.
Qed.

Fixpoint rleaf (t : rtype) : string :=
  match t with RNamed n => n | ROption u | RVec u | RBox u | RMap u => rleaf u end.

Lemma map_opt_in {A B} (f : A -> option B) l ys a : map_opt f l = Some ys -> In a l -> exists y, f a = Some y /\ In y ys.
Proof.
  revert ys. induction l as [|x r IH]; intros ys H Hin; [destruct Hin|].
  cbn [map_opt] in H. destruct (f x) as [y|] eqn:Ex; [|discriminate].
  destruct (map_opt f r) as [ys'|] eqn:Er; [|discriminate]. inversion H; subst ys.
  destruct Hin as [->|Hin].
  - exists y. split; [exact Ex|left; reflexivity].
  - destruct (IH ys' eq_refl Hin) as [y' [H1 H2]]. exists y'. split; [exact H1|right; exact H2].
Qed.

Lemma in_list_max y ys : In y ys -> y <= list_max ys.
Proof.
  intros H. assert (Hf : Forall (fun k => k <= list_max ys) ys) by (apply list_max_le; lia).
  rewrite Forall_forall in Hf. exact (Hf y H).
Qed.

Lemma in_combine_exists {A B} (l : list A) (l' : list B) a : List.length l = List.length l' -> In a l -> exists b, In (a, b) (combine l l').
Proof.
  revert l'. induction l as [|x r IH]; intros [|y t] Hl Hin; try discriminate; [destruct Hin|].
  destruct Hin as [->|Hin]; [exists y; left; reflexivity|].
  destruct (IH t (f_equal pred Hl) Hin) as [b Hb]. exists b. right. exact Hb.
Qed.

Lemma NoDup_app_iff {A} (a b : list A) : NoDup (a ++ b) <-> NoDup a /\ NoDup b /\ (forall x, In x a -> ~ In x b).
Proof.
  induction a as [|x r IH]; cbn [app].
  - split; [intros H; repeat split; [constructor|exact H|intros x []]|intros [_ [H _]]; exact H].
  - split.
    + intros H. inversion H as [|? ? Hx Hr]; subst. apply IH in Hr. destruct Hr as [Ha [Hb Hd]].
      repeat split; [constructor; [intros X; apply Hx; apply in_or_app; left; exact X|exact Ha]|exact Hb|].
      intros y [->|Hy]; [intros X; apply Hx; apply in_or_app; right; exact X|exact (Hd y Hy)].
    + intros [Ha [Hb Hd]]. inversion Ha as [|? ? Hx Hr]; subst. constructor.
      * intros X. apply in_app_or in X. destruct X as [X|X]; [exact (Hx X)|exact (Hd x (or_introl eq_refl) X)].
      * apply IH. repeat split; [exact Hr|exact Hb|intros y Hy; exact (Hd y (or_intror Hy))].
Qed.

Lemma json_eqb_str v x : json_eqb v (JStr x) = true -> v = JStr x.
Proof. destruct v; cbn; try discriminate. intros H. apply String.eqb_eq in H. congruence. Qed.

Lemma find_field_absent k fs : (forall g, In g fs -> field_wire g <> k) -> find_field k fs = None.
Proof.
  induction fs as [|f r IH]; intros H; [reflexivity|]. cbn [find_field].
  destruct (String.eqb_spec (field_wire f) k) as [E|_]; [exfalso; exact (H f (or_introl eq_refl) E)|].
  apply IH. intros g Hg. apply H. right. exact Hg.
Qed.


Lemma in_obj_get0 (m : list (string * json)) k v : NoDup (map fst m) -> In (k, v) m -> obj_get k m = Some v.
Proof.
  induction m as [|[k' v'] r IH]; intros Hnd Hin; [destruct Hin|].
  cbn [obj_get]. inversion Hnd as [|? ? Hk Hnd']; subst.
  destruct Hin as [E|Hin].
  - inversion E; subst. rewrite String.eqb_refl. reflexivity.
  - destruct (String.eqb_spec k k') as [->|Hne]; [|exact (IH Hnd' Hin)].
    exfalso. apply Hk. change k' with (fst (k', v)). apply in_map. exact Hin.
Qed.

(* ---------- a struct whose members are plain fields and flattened fragment structs (named-fragment
   spreads on the same object type), in any order *)
Lemma keys_in_out_disjoint (names N : list string) (m : list (string * json)) :
  (forall k, In k names -> ~ In k N) -> keys_in names (keys_out N m) = keys_in names m.
Proof.
  intros H. unfold keys_in, keys_out. induction m as [|[k v] r IH]; [reflexivity|]. cbn [filter fst].
  destruct (mem_str k N) eqn:EN; cbn [negb].
  - destruct (mem_str k names) eqn:En; [|exact IH].
    exfalso. apply mem_str_In in EN. apply mem_str_In in En. exact (H k En EN).
  - cbn [filter fst]. destruct (mem_str k names); [f_equal; exact IH|exact IH].
Qed.

Lemma keys_out_app (N1 N2 : list string) (m : list (string * json)) :
  keys_out N2 (keys_out N1 m) = keys_out (N1 ++ N2) m.
Proof.
  unfold keys_out. induction m as [|[k v] r IH]; [reflexivity|]. cbn [filter fst].
  assert (Hm : mem_str k (N1 ++ N2) = mem_str k N1 || mem_str k N2).
  { clear. induction N1 as [|a l IHl]; [reflexivity|]. cbn [app mem_str]. destruct (String.eqb k a); [reflexivity|exact IHl]. }
  rewrite Hm. destruct (mem_str k N1); cbn [negb orb]; [exact IH|].
  cbn [filter fst]. destruct (mem_str k N2); cbn [negb]; [exact IH|f_equal; exact IH].
Qed.

Section MixedStruct.
  Variables (D Dh : rtype -> json -> option rvalue) (env : list ritem).

  (* the keys a flattened member takes *)
  Definition names_of (fd : rfield) : list string :=
    if f_flatten fd then
      match strip_box (f_ty fd) with
      | RNamed n => match find_item n env with Some (IStruct _ _ _ tf) => map field_wire tf | _ => [] end
      | _ => []
      end
    else [].

  Definition member_good (seen : list (string * rvalue)) (rest : list (string * json)) (fd : rfield) : Prop :=
    if f_flatten fd then
      exists n a b c tf, strip_box (f_ty fd) = RNamed n /\ find_item n env = Some (IStruct a b c tf) /\
                         existsb f_flatten tf = false /\
                         is_some (D (RNamed n) (JObj (keys_in (map field_wire tf) rest))) = true
    else field_value seen fd <> None.

  Lemma serve_mixed seen rest : forall fields,
    (forall fd, In fd fields -> member_good seen rest fd) ->
    NoDup (flat_map names_of fields) ->
    forall N, (forall k, In k (flat_map names_of fields) -> ~ In k N) ->
    is_some (serve D env seen fields (keys_out N rest)) = true.
  Proof.
    induction fields as [|fd more IH]; intros Hgood Hnd N HN; [reflexivity|].
    cbn [serve]. pose proof (Hgood fd (or_introl eq_refl)) as Hfd. unfold member_good in Hfd.
    cbn [flat_map] in Hnd, HN. apply NoDup_app_iff in Hnd. destruct Hnd as [Hn1 [Hn2 Hdis]].
    destruct (f_flatten fd) eqn:Efl.
    - destruct Hfd as [n [a [b [c [tf [Hty [Hfi [Hnf Hacc]]]]]]]].
      rewrite Hty, Hfi, Hnf.
      assert (Hnames : names_of fd = map field_wire tf) by (unfold names_of; rewrite Efl, Hty, Hfi; reflexivity).
      rewrite keys_in_out_disjoint.
      + destruct (D (RNamed n) (JObj (keys_in (map field_wire tf) rest))) as [v|]; [|discriminate].
        rewrite keys_out_app.
        specialize (IH (fun g Hg => Hgood g (or_intror Hg)) Hn2 (N ++ map field_wire tf)).
        destruct (serve D env seen more (keys_out (N ++ map field_wire tf) rest)); [reflexivity|].
        exfalso. assert (X : false = true); [|discriminate]. apply IH.
        intros k Hk Hin. apply in_app_or in Hin. destruct Hin as [Hin|Hin].
        * apply (HN k); [apply in_or_app; right; exact Hk|exact Hin].
        * apply (Hdis k); [rewrite Hnames; exact Hin|exact Hk].
      + intros k Hk. apply HN. apply in_or_app. left. rewrite Hnames. exact Hk.
    - destruct (field_value seen fd) as [v|]; [|congruence].
      assert (Hno : names_of fd = []) by (unfold names_of; rewrite Efl; reflexivity).
      rewrite Hno in HN. cbn [app] in HN.
      specialize (IH (fun g Hg => Hgood g (or_intror Hg)) Hn2 N HN).
      destruct (serve D env seen more (keys_out N rest)); [reflexivity|discriminate].
  Qed.

  Lemma keys_out_nil (m : list (string * json)) : keys_out [] m = m.
  Proof. unfold keys_out. induction m as [|e r IH]; [reflexivity|]. cbn. f_equal. exact IH. Qed.

  (* acceptance of the whole struct *)
  Theorem mixed_struct_accepts fields m :
    let own := filter (fun fd => negb (f_flatten fd)) fields in
    NoDup (map field_wire own) -> NoDup (map f_ident own) -> NoDup (map fst m) ->
    (forall fd, In fd own -> member_ok D Dh m fd <> None) ->
    (forall fd, In fd fields -> f_flatten fd = true ->
       exists n a b c tf, strip_box (f_ty fd) = RNamed n /\ find_item n env = Some (IStruct a b c tf) /\
                          existsb f_flatten tf = false /\
                          is_some (D (RNamed n) (JObj (keys_in (map field_wire tf) (filter (not_own own) m)))) = true) ->
    NoDup (flat_map names_of fields) ->
    is_some (deser_struct D Dh env fields m) = true.
  Proof.
    intros own Hw Hi Hnd Hok Hfl Hnames. unfold deser_struct. fold own.
    destruct (claim_ok (deser_field D Dh) own Hw Hi m Hnd) as [seen [Hc Hs]].
    - intros k v f Hin Ef. destruct (find_field_some _ _ _ Ef) as [Hfin Hfw].
      specialize (Hok f Hfin). unfold member_ok in Hok.
      rewrite <- Hfw in Hin. rewrite (in_obj_get0 m _ _ Hnd Hin) in Hok.
      destruct (deser_field D Dh f v) as [x|]; [exists x; reflexivity|congruence].
    - rewrite Hc, is_some_option_map. rewrite <- (keys_out_nil (filter (not_own own) m)).
      apply serve_mixed; [|exact Hnames|intros k _ []].
      intros fd Hfd. unfold member_good. destruct (f_flatten fd) eqn:Efl; [exact (Hfl fd Hfd Efl)|].
      assert (Hfo : In fd own) by (unfold own; apply filter_In; split; [exact Hfd|rewrite Efl; reflexivity]).
      specialize (Hok fd Hfo). unfold member_ok in Hok. unfold field_value. rewrite (Hs fd Hfo).
      destruct (obj_get (field_wire fd) m) as [v|].
      + destruct (deser_field D Dh fd v); [discriminate|congruence].
      + unfold field_value in Hok. cbn [assoc] in Hok. exact Hok.
  Qed.
End MixedStruct.

Section Checker.
  Variables (s : aschema) (frags : list (string * (string * list sel))) (henv env : list ritem).

  Definition alias_to (n prim : string) : bool :=
    match find_item n env with Some (IAlias _ (RNamed p)) => String.eqb p prim | _ => false end.

  (* what the leaf type named ln must be for schema type tn; Some F0 = accepted from fuel F0 on *)
  Definition leaf_need (rec : string -> string -> list sel -> option nat) (tn ln : string) (sub : list sel) : option nat :=
    match find_kind_sdl s tn with
    | Some KScalar =>
        if String.eqb tn "Int" then (if String.eqb ln "Int" && alias_to "Int" "i64" then Some 2 else None)
        else if String.eqb tn "Float" then (if String.eqb ln "Float" && alias_to "Float" "f64" then Some 2 else None)
        else if String.eqb tn "Boolean" then (if String.eqb ln "Boolean" && alias_to "Boolean" "bool" then Some 2 else None)
        else if String.eqb tn "String" then (if String.eqb ln "String" then Some 1 else None)
        else if String.eqb tn "ID" then None
        else if negb (is_prim ln) && match find_item ln env with None | Some (IAliasPath _ _) => true | _ => false end
             then Some 1 else None
    | Some KEnum =>
        if negb (is_prim ln) && match find_item ln env with Some (IStrEnum _ _ _ _ _ _ true) => true | _ => false end
        then Some 1 else None
    | Some KObject | Some KInterface | Some KUnion => match sub with [] => None | _ => rec ln tn sub end
    | _ => None
    end.

  Definition pair_need (rec : string -> string -> list sel -> option nat) (t : string) (fd : rfield) (x : sel) : option nat :=
    match x with
    | SField a n sub =>
        if negb (String.eqb (field_wire fd) (response_key a n)) then None else
        match f_deser_with fd, field_def s t n with
        | Some h, Some fdf =>
            (* an ID field: one of the three helpers, on the type the generator derives for it *)
            let ty := fd_type fdf in
            if henv_ok henv && wf_gtype ty && String.eqb (gname ty) "ID" &&
               match find_kind_sdl s "ID" with Some KScalar => true | _ => false end &&
               match decorate "ID" (quals_sdl ty) with Some r => rtype_eqb r (f_ty fd) | None => false end &&
               (if String.eqb h "deserialize_id" then match ty with GNonNull (GNamed _) => true | _ => false end
                else if String.eqb h "deserialize_option_id" then match ty with GNamed _ => true | _ => false end
                else String.eqb h "deserialize_id_list") &&
               (* `default` (an absent key gives None) only where the schema allows null *)
               (negb (f_default fd) || top_nullable ty)
            then Some 4 else None
        | None, Some fdf =>
            let ty := fd_type fdf in
            if negb (wf_gtype ty && negb (f_default fd)) then None else
            match leaf_need rec (gname ty) (rleaf (f_ty fd)) sub with
            | Some F0 =>
                match decorate (rleaf (f_ty fd)) (quals_sdl ty) with
                | Some r => if rtype_eqb r (f_ty fd) then Some (F0 + wraps ty + 1) else None
                | None => None
                end
            | None => None
            end
        | _, _ => None
        end
    | _ => None
    end.

  Definition not_typename (x : sel) : bool := negb (String.eqb (fst (snd (sel_entry x))) "__typename").

  (* the plain members of a struct against the (non-__typename) fields of a selection on type t *)
  Definition members_need (rec : string -> string -> list sel -> option nat) (t : string)
             (fields : list rfield) (own : list sel) : option (list nat) :=
    if forallb (fun fd => negb (f_flatten fd)) fields &&
       nodup_str (map field_wire fields) && nodup_str (map f_ident fields) &&
       Nat.eqb (List.length fields) (List.length own)
    then map_opt (fun p => pair_need rec t (fst p) (snd p)) (combine fields own)
    else None.

  (* object type: a struct without flattened members *)
  Definition obj_need (rec : string -> string -> list sel -> option nat) (name t : string) (sels : list sel) : option nat :=
    if negb (forallb is_field sels && nodup_str (map (fun x => fst (sel_entry x)) sels) && negb (is_prim name))
    then None else
    match find_item name env with
    | Some (IStruct _ _ _ fields) =>
        match members_need rec t fields (filter not_typename sels) with
        | Some needs => Some (S (list_max needs))
        | None => None
        end
    | _ => None
    end.

  (* ---- interface / union: `__typename`, own fields, one inline fragment per member type *)
  Definition shape_ok (x : sel) : bool :=
    match x with
    | SField a n _ => negb (String.eqb n "__typename") || match a with None => true | Some _ => false end
    | SInline (Some v) sub =>
        forallb is_field sub && forallb not_typename sub &&
        match find_kind_sdl s v with Some KObject => true | _ => false end
    | _ => false
    end.

  Definition mixed_entries (rt : string) (sels : list sel) : list (string * (string * list sel)) :=
    flat_map (fun x => match x with
                       | SField _ _ _ => [sel_entry x]
                       | SInline (Some v) sub => if applies s rt v then map sel_entry sub else []
                       | _ => [] end) sels.

  Definition inlines (sels : list sel) : list (string * list sel) :=
    flat_map (fun x => match x with SInline (Some v) sub => [(v, sub)] | _ => [] end) sels.

  Definition has_typename_field (sels : list sel) : bool :=
    existsb (fun x => match x with SField None n _ => String.eqb n "__typename" | _ => false end) sels.

  Definition variants_need (rec : string -> string -> list sel -> option nat) (t : string) (sels : list sel)
             (variants : list rvariant) : option (list nat) :=
    if negb (forallb (fun v => mem_str (variant_wire v) (possible s t) || v_other v) variants) then None else
    map_opt (fun rt =>
      match find (fun v => String.eqb (variant_wire v) rt) variants with
      | Some var =>
          match v_payload var, assoc rt (inlines sels) with
          | None, None => Some 0
          | Some (RNamed sv), Some sub => rec sv rt sub
          | _, _ => None
          end
      | None => None
      end) (possible s t).

  Definition abs_need (rec : string -> string -> list sel -> option nat) (name t : string) (sels : list sel) : option nat :=
    let own := filter (fun x => is_field x && not_typename x) sels in
    if negb (forallb shape_ok sels && has_typename_field sels && nodup_str (map fst (inlines sels)) &&
             negb (is_prim name) &&
             forallb (fun rt => nodup_str (map fst (mixed_entries rt sels)) &&
                                match find_kind_sdl s rt with Some KObject => true | _ => false end &&
                                forallb (fun x => match x with
                                                  | SField _ n _ => opt_eqb gtype_eqb_gen (option_map fd_type (field_def s rt n))
                                                                            (option_map fd_type (field_def s t n))
                                                  | _ => true end) own) (possible s t))
    then None else
    match own, find_item name env with
    | [], Some (ITagEnum _ _ _ tag variants) =>
        if negb (String.eqb tag "__typename") then None else
        match variants_need rec t sels variants with
        | Some vn => Some (S (list_max vn))
        | None => None
        end
    | _ :: _, Some (IStruct _ _ _ fields) =>
        match rev fields with
        | onf :: rplain =>
            match strip_box (f_ty onf) with
            | RNamed en =>
                match find_item en env with
                | Some (ITagEnum _ _ _ tag variants) =>
                    if negb (String.eqb tag "__typename" && f_flatten onf && negb (is_prim en)) then None else
                    match members_need rec t (rev rplain) own, variants_need rec t sels variants with
                    | Some needs, Some vn => Some (S (S (list_max (needs ++ vn))))
                    | _, _ => None
                    end
                | _ => None
                end
            | _ => None
            end
        | [] => None
        end
    | _, _ => None
    end.

  (* ---- object type with named-fragment spreads: fragments declared on the same object type whose
     own selection consists of fields; each becomes a flattened member of plain-struct type *)
  Definition frag_fields (t : string) (n : string) : option (list sel) :=
    match assoc n frags with
    | Some (c, fsel) => if String.eqb c t && forallb is_field fsel && forallb not_typename fsel then Some fsel else None
    | None => None
    end.

  Definition sentries (t : string) (sels : list sel) : list (string * (string * list sel)) :=
    flat_map (fun x => match x with
                       | SField _ _ _ => [sel_entry x]
                       | SSpread n => match frag_fields t n with Some fsel => map sel_entry fsel | None => [] end
                       | _ => [] end) sels.

  Definition spread_names (sels : list sel) : list string :=
    flat_map (fun x => match x with SSpread n => [n] | _ => [] end) sels.

  Definition smember_need (rec : string -> string -> list sel -> option nat) (t : string) (fd : rfield) (x : sel) : option nat :=
    match x with
    | SField _ _ _ => if f_flatten fd then None else pair_need rec t fd x
    | SSpread n =>
        match frag_fields t n, strip_box (f_ty fd), find_item n env with
        | Some fsel, RNamed n', Some (IStruct _ _ _ tf) =>
            if f_flatten fd && String.eqb n' n && negb (existsb f_flatten tf) &&
               lstr_eqb (map field_wire tf) (map (fun y => fst (sel_entry y)) fsel)
            then match fsel with [] => None | _ => rec n t fsel end
            else None
        | _, _, _ => None
        end
    | _ => None
    end.

  Definition objs_need (rec : string -> string -> list sel -> option nat) (name t : string) (sels : list sel) : option nat :=
    let msels := filter (fun x => match x with SField _ _ _ => not_typename x | _ => true end) sels in
    if negb (forallb (fun x => match x with
                               | SField _ _ _ => true
                               | SSpread n => match frag_fields t n with Some _ => true | None => false end
                               | _ => false end) sels &&
             nodup_str (spread_names sels) && nodup_str (map fst (sentries t sels)) && negb (is_prim name))
    then None else
    match find_item name env with
    | Some (IStruct _ _ _ fields) =>
        let own := filter (fun fd => negb (f_flatten fd)) fields in
        if negb (nodup_str (map field_wire own) && nodup_str (map f_ident own) &&
                 Nat.eqb (List.length fields) (List.length msels))
        then None else
        match map_opt (fun p => smember_need rec t (fst p) (snd p)) (combine fields msels) with
        | Some needs => Some (S (list_max needs))
        | None => None
        end
    | _ => None
    end.

  Definition has_spread (sels : list sel) : bool := existsb (fun x => match x with SSpread _ => true | _ => false end) sels.

  (* Some B: the type `name` implements the selection `sels` on type t, and its deserializer needs fuel B *)
  Fixpoint sel_need (fuel : nat) (name t : string) (sels : list sel) {struct fuel} : option nat :=
    match fuel with
    | O => None
    | S f =>
        match find_kind_sdl s t with
        | Some KObject => if has_spread sels then objs_need (sel_need f) name t sels else obj_need (sel_need f) name t sels
        | Some KInterface | Some KUnion => abs_need (sel_need f) name t sels
        | _ => None
        end
    end.
End Checker.

(* ---------- soundness of the checker: every conforming payload is accepted *)
Section Soundness.
  Variables (s : aschema) (frags : list (string * (string * list sel))) (henv env : list ritem).

  Definition Accepts (rec : string -> string -> list sel -> option nat) : Prop :=
    forall name t sels B, rec name t sels = Some B ->
    forall F, B <= F -> forall Fj m rt, In rt (possible s t) -> cobj s frags Fj rt sels m = true ->
    is_some (deser henv F env (RNamed name) (JObj m)) = true.

  Lemma alias_to_find n p : alias_to env n p = true -> exists n', find_item n env = Some (IAlias n' (RNamed p)).
  Proof.
    unfold alias_to. destruct (find_item n env) as [[| | | | | |n' [q| | | |]| |]|]; try discriminate.
    intros H. apply String.eqb_eq in H. subst q. exists n'. reflexivity.
  Qed.

  Lemma deser_alias F n n' u j : is_prim n = false -> find_item n env = Some (IAlias n' u) ->
    deser henv (S F) env (RNamed n) j = deser henv F env u j.
  Proof. intros Hp Hf. cbn [deser]. rewrite (prim_deser_none n j Hp), Hf. reflexivity. Qed.

  (* the leaf layer, given that the composite types below are accepted *)
  Lemma leaf_accepts rec : Accepts rec ->
    forall tn ln sub F0, leaf_need s env rec tn ln sub = Some F0 ->
    forall fj F j, F0 <= F -> is_null j = false ->
      leaf_of s (cobj s frags fj) tn sub j = true -> is_some (deser henv F env (RNamed ln) j) = true.
  Proof.
    intros Hrec tn ln sub F0 Hn fj F j HF Hnn Hl.
    unfold leaf_need in Hn. unfold leaf_of in Hl.
    assert (Hcomp : forall B, match sub with [] => None | _ => rec ln tn sub end = Some B -> B <= F ->
              (match j, sub with
               | JObj m', _ :: _ => existsb (fun rt' => cobj s frags fj rt' sub m') (possible s tn)
               | _, _ => false end) = true -> is_some (deser henv F env (RNamed ln) j) = true).
    { intros B HB HBF Hex. destruct sub as [|x0 sub0]; [discriminate|].
      destruct j as [| | | | | |m']; try discriminate.
      apply existsb_exists in Hex. destruct Hex as [rt' [Hin Hc]].
      exact (Hrec ln tn (x0 :: sub0) B HB F HBF fj m' rt' Hin Hc). }
    destruct (find_kind_sdl s tn) as [[| | | | |]|] eqn:Ek; try discriminate;
      try (exact (Hcomp F0 Hn HF Hl)).
    - (* scalar *)
      destruct (String.eqb_spec tn "Int") as [->|N1].
      { destruct (String.eqb_spec ln "Int") as [->|]; [|discriminate]. cbn [andb] in Hn.
        destruct (alias_to env "Int" "i64") eqn:Ea; [|discriminate]. inversion Hn; subst F0.
        destruct (alias_to_find _ _ Ea) as [n' Hf].
        destruct F as [|[|F]]; try lia. rewrite (deser_alias _ "Int" n' _ j eq_refl Hf).
        cbn [deser]. unfold scalar_leaf in Hl. cbn in Hl. destruct j; try discriminate.
        cbn. assert (in_i64 z = true) as ->; [|reflexivity].
        unfold in_i32, in_i64, i32_min, i32_max, i64_min, i64_max in *. lia. }
      destruct (String.eqb_spec tn "Float") as [->|N2].
      { destruct (String.eqb_spec ln "Float") as [->|]; [|discriminate]. cbn [andb] in Hn.
        destruct (alias_to env "Float" "f64") eqn:Ea; [|discriminate]. inversion Hn; subst F0.
        destruct (alias_to_find _ _ Ea) as [n' Hf].
        destruct F as [|[|F]]; try lia. rewrite (deser_alias _ "Float" n' _ j eq_refl Hf).
        cbn [deser]. unfold scalar_leaf in Hl. cbn in Hl. destruct j; try discriminate; reflexivity. }
      destruct (String.eqb_spec tn "Boolean") as [->|N3].
      { destruct (String.eqb_spec ln "Boolean") as [->|]; [|discriminate]. cbn [andb] in Hn.
        destruct (alias_to env "Boolean" "bool") eqn:Ea; [|discriminate]. inversion Hn; subst F0.
        destruct (alias_to_find _ _ Ea) as [n' Hf].
        destruct F as [|[|F]]; try lia. rewrite (deser_alias _ "Boolean" n' _ j eq_refl Hf).
        cbn [deser]. unfold scalar_leaf in Hl. cbn in Hl. destruct j; try discriminate; reflexivity. }
      destruct (String.eqb_spec tn "String") as [->|N4].
      { destruct (String.eqb_spec ln "String") as [->|]; [|discriminate]. inversion Hn; subst F0.
        destruct F as [|F]; try lia. unfold scalar_leaf in Hl. cbn in Hl. destruct j; try discriminate; reflexivity. }
      destruct (String.eqb_spec tn "ID") as [->|N5]; [discriminate|].
      destruct (is_prim ln) eqn:Ep; [discriminate|]. cbn [negb andb] in Hn.
      destruct F as [|F]; [destruct (find_item ln env) as [[]|]; inversion Hn; subst; lia|].
      cbn [deser]. rewrite (prim_deser_none ln j Ep).
      destruct (find_item ln env) as [[]|]; try discriminate; reflexivity.
    - (* enum *)
      destruct (is_prim ln) eqn:Ep; [discriminate|]. cbn [negb andb] in Hn.
      destruct (find_item ln env) as [[| | | | |n' d vs sa so da [|]| | |]|] eqn:Ef; try discriminate.
      inversion Hn; subst F0. destruct F as [|F]; [lia|].
      cbn [deser]. rewrite (prim_deser_none ln j Ep), Ef.
      destruct j; try discriminate. unfold strenum_deser. destruct (assoc s0 da); reflexivity.
  Qed.

  (* one plain member against the payload: the per-field step shared by structs on object and on
     abstract types.  rt is the runtime type, t the static type the selection is written on. *)
  Lemma member_accepts rec : Accepts rec ->
    forall t rt fd a n sub nd fj F m,
    pair_need s henv env rec t fd (SField a n sub) = Some nd -> nd <= F ->
    String.eqb n "__typename" = false ->
    option_map fd_type (field_def s rt n) = option_map fd_type (field_def s t n) ->
    field_ok s (cobj s frags fj) rt m (sel_entry (SField a n sub)) = true ->
    member_ok (deser henv F env) (deser henv F henv) m fd <> None.
  Proof.
    intros Hrec t rt fd a n sub nd fj F m Hpn HF Hnt Hdef Hall.
    unfold pair_need in Hpn.
    destruct (String.eqb_spec (field_wire fd) (response_key a n)) as [Hwk|]; [|discriminate]. cbn [negb] in Hpn.
    cbn [sel_entry] in Hall. unfold field_ok in Hall.
    destruct (obj_get (response_key a n) m) as [v|] eqn:Eg; [|discriminate].
    rewrite Hnt in Hall.
    destruct (field_def s rt n) as [fdr|] eqn:Efr; [|discriminate].
    destruct (field_def s t n) as [fdf|] eqn:Efd; [|discriminate Hdef].
    cbn [option_map] in Hdef. assert (Hty : fd_type fdr = fd_type fdf) by congruence. rewrite Hty in Hall. clear Hdef Hty.
    unfold member_ok. rewrite Hwk, Eg. unfold deser_field.
    destruct (f_deser_with fd) as [h|] eqn:Edw.
    { (* an ID field *)
      match type of Hpn with (if ?c then _ else _) = _ => destruct c eqn:Ec; [|discriminate] end.
      inversion Hpn; subst nd. clear Hpn.
      repeat (apply andb_true_iff in Ec; destruct Ec as [Ec ?]).
      match goal with H : String.eqb (gname _) "ID" = true |- _ => apply String.eqb_eq in H; rename H into Hid end.
      rewrite Hid in Hall.
      assert (Hleaf : forall j, leaf_of s (cobj s frags fj) "ID" sub j = true -> id_leaf j = true).
      { intros j. unfold leaf_of. destruct (find_kind_sdl s "ID") as [[| | | | |]|]; try discriminate.
        unfold scalar_leaf. cbn. destruct j; intros; assumption || discriminate. }
      pose proof (ctype_mono _ _ Hleaf _ _ _ Hall) as Hid_ok.
      destruct F as [|[|[|F]]]; try lia.
      match goal with H : henv_ok henv = true |- _ => rename H into Hh end.
      destruct (String.eqb h "deserialize_id") eqn:E1.
      - destruct (fd_type fdf) as [|?|[nm1|?|?]]; try discriminate.
        cbn [ctype] in Hid_ok. destruct (is_null v) eqn:En; [discriminate|].
        pose proof (int_or_string_accepts henv Hh (S F) v Hid_ok) as Hs.
        destruct (int_or_string _ v); [discriminate|discriminate Hs].
      - destruct (String.eqb h "deserialize_option_id") eqn:E2.
        + destruct (fd_type fdf) as [nm2|?|?]; try discriminate.
          cbn [ctype] in Hid_ok.
          assert (Hor : is_null v = true \/ id_leaf v = true) by (destruct (is_null v); [left; reflexivity|right; exact Hid_ok]).
          destruct (option_id_accepts henv Hh F v Hor) as [E|[[z E]|[x E]]]; rewrite E; discriminate.
        + match goal with H : String.eqb h "deserialize_id_list" = true |- _ => rewrite H end.
          match goal with H : match decorate "ID" _ with Some _ => _ | None => _ end = true |- _ => rename H into Hdec end.
          match goal with H : wf_gtype _ = true |- _ => rename H into Hwf end.
          rewrite (decorate_leaf _ "ID" Hwf) in Hdec. apply rtype_eqb_eq in Hdec. rewrite <- Hdec.
          pose proof (proj1 (id_container_both henv Hh (S F) _ Hwf) v Hid_ok) as Hs.
          destruct (id_container_deser _ _ v); [discriminate|discriminate Hs]. }
    destruct (wf_gtype (fd_type fdf) && negb (f_default fd)) eqn:Ewf0; [|discriminate]. cbn [negb] in Hpn.
    apply andb_true_iff in Ewf0. destruct Ewf0 as [Ewf _].
    destruct (leaf_need s env rec (gname (fd_type fdf)) (rleaf (f_ty fd)) sub) as [F0|] eqn:El; [|discriminate].
    destruct (decorate (rleaf (f_ty fd)) (quals_sdl (fd_type fdf))) as [r|] eqn:Edec; [|discriminate].
    destruct (rtype_eqb r (f_ty fd)) eqn:Er; [|discriminate]. apply rtype_eqb_eq in Er. subst r.
    inversion Hpn; subst nd. clear Hpn.
    assert (Hs : is_some (deser henv F env (f_ty fd) v) = true).
    { apply (field_type_accepts_conforming henv env (rleaf (f_ty fd))
               (leaf_of s (cobj s frags fj) (gname (fd_type fdf)) sub) F0) with (t := fd_type fdf).
      - intros F1 j1 HF1 Hn1 Hl1. exact (leaf_accepts _ Hrec _ _ _ _ El fj F1 j1 HF1 Hn1 Hl1).
      - exact Ewf.
      - exact Edec.
      - lia.
      - exact Hall. }
    destruct (deser henv F env (f_ty fd) v); [discriminate|discriminate Hs].
  Qed.

  (* all plain members at once *)
  Lemma members_accept rec : Accepts rec ->
    forall t rt fields own needs fj F m,
    members_need s henv env rec t fields own = Some needs -> list_max needs <= F ->
    (forall x, In x own -> exists a n sub, x = SField a n sub /\ String.eqb n "__typename" = false /\
                                        option_map fd_type (field_def s rt n) = option_map fd_type (field_def s t n) /\
                                        field_ok s (cobj s frags fj) rt m (sel_entry x) = true) ->
    forallb (fun fd => negb (f_flatten fd)) fields = true /\ NoDup (map field_wire fields) /\ NoDup (map f_ident fields) /\
    forall fd, In fd fields -> member_ok (deser henv F env) (deser henv F henv) m fd <> None.
  Proof.
    intros Hrec t rt fields own needs fj F m Hm HF Hown. unfold members_need in Hm.
    match type of Hm with (if ?c then _ else _) = _ => destruct c eqn:Ec; [|discriminate] end.
    apply andb_true_iff in Ec. destruct Ec as [Ec Hlen]. apply andb_true_iff in Ec. destruct Ec as [Ec Hi].
    apply andb_true_iff in Ec. destruct Ec as [Hplain Hw].
    apply nodup_str_NoDup in Hw. apply nodup_str_NoDup in Hi. apply Nat.eqb_eq in Hlen.
    repeat split; try assumption.
    intros fd Hfd.
    destruct (in_combine_exists fields own fd Hlen Hfd) as [x Hx].
    destruct (map_opt_in _ _ _ _ Hm Hx) as [nd [Hpn Hnd']]. cbn [fst snd] in Hpn.
    destruct (Hown x (in_combine_r _ _ _ _ Hx)) as [a [n [sub [-> [Hnt [Hdef Hok]]]]]].
    apply (member_accepts rec Hrec t rt fd a n sub nd fj F m Hpn); try assumption.
    pose proof (in_list_max _ _ Hnd'). lia.
  Qed.

  Lemma obj_sound rec : Accepts rec ->
    forall name t sels B, find_kind_sdl s t = Some KObject -> obj_need s henv env rec name t sels = Some B ->
    forall F, B <= F -> forall Fj m rt, In rt (possible s t) -> cobj s frags Fj rt sels m = true ->
    is_some (deser henv F env (RNamed name) (JObj m)) = true.
  Proof.
    intros Hrec name t sels B Ek H F HF Fj m rt Hrt Hc.
    assert (rt = t) as ->.
    { unfold possible in Hrt. rewrite Ek in Hrt. destruct Hrt as [<-|[]]. reflexivity. }
    unfold obj_need in H.
    destruct (forallb is_field sels && nodup_str (map (fun x => fst (sel_entry x)) sels) && negb (is_prim name)) eqn:E1;
      [|discriminate]. cbn [negb] in H.
    apply andb_true_iff in E1. destruct E1 as [E1 Hprim]. apply andb_true_iff in E1. destruct E1 as [Hfld Hnd].
    apply negb_true_iff in Hprim. apply nodup_str_NoDup in Hnd.
    destruct (find_item name env) as [[nm d c fields| | | | | | | |]|] eqn:Ef; try discriminate.
    destruct (members_need s henv env rec t fields (filter not_typename sels)) as [needs|] eqn:Em; [|discriminate].
    inversion H; subst B. clear H.
    destruct F as [|F]; [lia|].
    destruct Fj as [|fj]; [discriminate|]. cbn [cobj] in Hc.
    rewrite (collected_plain s frags t sels Hfld Hnd) in Hc.
    apply andb_true_iff in Hc. destruct Hc as [Hc Hall]. apply andb_true_iff in Hc. destruct Hc as [Hmnd _].
    apply nodup_str_NoDup in Hmnd. rewrite forallb_forall in Hall.
    destruct (members_accept rec Hrec t t fields (filter not_typename sels) needs fj F m Em) as [Hplain [Hw [Hi Hmem]]]; [lia| |].
    { intros x Hx. apply filter_In in Hx. destruct Hx as [Hxs Hnt].
      rewrite forallb_forall in Hfld. specialize (Hfld x Hxs).
      destruct x as [a n sub| |]; try discriminate.
      exists a, n, sub. split; [reflexivity|]. unfold not_typename in Hnt. cbn [sel_entry fst snd] in Hnt.
      apply negb_true_iff in Hnt. split; [exact Hnt|]. split; [reflexivity|].
      apply Hall. apply in_map. exact Hxs. }
    cbn [deser]. rewrite (prim_deser_none name (JObj m) Hprim), Ef.
    destruct (struct_accepts (deser henv F env) (deser henv F henv) env fields Hplain Hw Hi m Hmnd Hmem) as [vs [Hd _]].
    rewrite Hd. reflexivity.
  Qed.

  (* ---- CollectFields on a selection of fields and inline fragments with field-only bodies *)
  Lemma collect_mixed fuel rt visited sels : forallb (shape_ok s) sels = true ->
    collect_fields s frags (S fuel) rt visited sels = (mixed_entries s rt sels, visited).
  Proof.
    intros H. cbn [collect_fields]. unfold mixed_entries.
    induction sels as [|x r IH]; [reflexivity|].
    cbn [forallb] in H. apply andb_true_iff in H. destruct H as [Hx Hr].
    cbn [flat_map]. destruct x as [a n sub|[v|] sub|]; try discriminate.
    - rewrite (IH Hr). reflexivity.
    - cbn [shape_ok] in Hx. apply andb_true_iff in Hx. destruct Hx as [Hx _]. apply andb_true_iff in Hx. destruct Hx as [Hsub _].
      destruct (applies s rt v).
      + assert (Hin : forall vis,
                 (fix many (l : list sel) (visited0 : list string) {struct l} :=
                    match l with
                    | [] => ([], visited0)
                    | y :: r0 =>
                        let '(a0, v1) :=
                          (fix one (x : sel) (visited1 : list string) {struct x} :
                             list (string * (string * list sel)) * list string :=
                             match x with
                             | SField alias n sub0 => ([(response_key alias n, (n, sub0))], visited1)
                             | SInline on sub0 =>
                                 if match on with Some c => applies s rt c | None => true end
                                 then (fix many0 (l0 : list sel) (visited2 : list string) {struct l0} :=
                                         match l0 with
                                         | [] => ([], visited2)
                                         | y0 :: r1 => let '(a1, v2) := one y0 visited2 in
                                                       let '(b, v3) := many0 r1 v2 in (a1 ++ b, v3)
                                         end) sub0 visited1
                                 else ([], visited1)
                             | SSpread n =>
                                 if mem_str n visited1 then ([], visited1)
                                 else match assoc n frags with
                                      | Some (c, fsel) =>
                                          if applies s rt c then collect_fields s frags fuel rt (n :: visited1) fsel
                                          else ([], n :: visited1)
                                      | None => ([], n :: visited1)
                                      end
                             end) y visited0 in
                        let '(b, v2) := many r0 v1 in (a0 ++ b, v2)
                    end) sub vis = (map sel_entry sub, vis)).
        { clear -Hsub. induction sub as [|y r0 IH2]; intros vis; [reflexivity|].
          cbn [forallb] in Hsub. apply andb_true_iff in Hsub. destruct Hsub as [Hy Hr0].
          destruct y as [a n sub0| |]; try discriminate. rewrite (IH2 Hr0). reflexivity. }
        rewrite Hin. rewrite (IH Hr). reflexivity.
      + rewrite (IH Hr). reflexivity.
  Qed.

  Lemma collected_mixed rt sels : forallb (shape_ok s) sels = true -> NoDup (map fst (mixed_entries s rt sels)) ->
    collected s frags rt sels = mixed_entries s rt sels.
  Proof.
    intros Hs Hnd. unfold collected. rewrite collect_mixed by exact Hs. cbn [fst].
    apply merge_fields_nodup. exact Hnd.
  Qed.

  (* ---- facts about mixed_entries *)
  Definition entries_of (rt : string) (x : sel) : list (string * (string * list sel)) :=
    match x with
    | SField _ _ _ => [sel_entry x]
    | SInline (Some v) sub => if applies s rt v then map sel_entry sub else []
    | _ => []
    end.

  Lemma mixed_is_flat_map rt sels : mixed_entries s rt sels = flat_map (entries_of rt) sels.
  Proof. reflexivity. Qed.

  Lemma flat_map_seg_nodup {A} (g : A -> list (string * (string * list sel))) l x :
    NoDup (map fst (flat_map g l)) -> In x l -> NoDup (map fst (g x)).
  Proof.
    induction l as [|y r IH]; intros H Hin; [destruct Hin|].
    cbn [flat_map] in H. rewrite map_app in H. destruct Hin as [->|Hin].
    - exact (proj1 (proj1 (NoDup_app_iff _ _) H)).
    - apply IH; [|exact Hin]. exact (proj1 (proj2 (proj1 (NoDup_app_iff _ _) H))).
  Qed.

  Lemma flat_map_keys_disjoint {A} (g : A -> list (string * (string * list sel))) l x1 x2 e1 e2 :
    NoDup (map fst (flat_map g l)) -> In x1 l -> In x2 l -> x1 <> x2 -> In e1 (g x1) -> In e2 (g x2) -> fst e1 <> fst e2.
  Proof.
    induction l as [|y r IH]; intros H H1 H2 Hne He1 He2; [destruct H1|].
    cbn [flat_map] in H. rewrite map_app in H. apply NoDup_app_iff in H. destruct H as [Ha [Hb Hdis]].
    assert (Hin : forall x e, In x r -> In e (g x) -> In (fst e) (map fst (flat_map g r))).
    { intros x e Hx He. apply in_map. apply in_flat_map. exists x. split; assumption. }
    destruct H1 as [->|H1]; destruct H2 as [->|H2].
    - congruence.
    - intros E. apply (Hdis (fst e1)); [apply in_map; exact He1|]. rewrite E. exact (Hin x2 e2 H2 He2).
    - intros E. apply (Hdis (fst e2)); [apply in_map; exact He2|]. rewrite <- E. exact (Hin x1 e1 H1 He1).
    - exact (IH Hb H1 H2 Hne He1 He2).
  Qed.

  Lemma applies_object rt v : find_kind_sdl s v = Some KObject -> applies s rt v = String.eqb rt v.
  Proof. intros H. unfold applies, possible. rewrite H. cbn [mem_str]. destruct (String.eqb rt v); reflexivity. Qed.

  Lemma assoc_inlines rt sub sels : assoc rt (inlines sels) = Some sub -> In (SInline (Some rt) sub) sels.
  Proof.
    induction sels as [|x r IH]; [discriminate|]. unfold inlines. cbn [flat_map].
    destruct x as [a n sb|[v|] sb|]; cbn [app]; try (intros H; right; exact (IH H)).
    cbn [assoc]. destruct (String.eqb_spec rt v) as [->|Hne].
    - intros H. inversion H; subst. left. reflexivity.
    - intros H. right. exact (IH H).
  Qed.

  Lemma inlines_unique v sub sub' sels : NoDup (map fst (inlines sels)) ->
    In (SInline (Some v) sub) sels -> In (SInline (Some v) sub') sels -> sub = sub'.
  Proof.
    intros Hnd H1 H2.
    assert (Hin : forall sb, In (SInline (Some v) sb) sels -> In (v, sb) (inlines sels)).
    { intros sb H. unfold inlines. apply in_flat_map. exists (SInline (Some v) sb). split; [exact H|left; reflexivity]. }
    pose proof (Hin sub H1) as A. pose proof (Hin sub' H2) as B.
    clear -Hnd A B. induction (inlines sels) as [|[k x] r IH]; [destruct A|].
    cbn [map fst] in Hnd. inversion Hnd as [|? ? Hk Hr]; subst.
    destruct A as [A|A]; destruct B as [B|B].
    - congruence.
    - inversion A; subst. exfalso. apply Hk. change v with (fst (v, sub')). apply in_map. exact B.
    - inversion B; subst. exfalso. apply Hk. change v with (fst (v, sub)). apply in_map. exact A.
    - exact (IH Hr A B).
  Qed.

  (* the payload handed to a variant's struct conforms to the inline fragment's selection *)
  Lemma content_conforms rt sub (m content : list (string * json)) fj :
    forallb is_field sub = true -> NoDup (map (fun x => fst (sel_entry x)) sub) ->
    NoDup (map fst content) ->
    (forall e, In e content -> In (fst e) (map (fun x => fst (sel_entry x)) sub)) ->
    (forall y, In y sub -> obj_get (fst (sel_entry y)) content = obj_get (fst (sel_entry y)) m) ->
    (forall y, In y sub -> field_ok s (cobj s frags fj) rt m (sel_entry y) = true) ->
    cobj s frags (S fj) rt sub content = true.
  Proof.
    intros Hf Hnd Hc Hk Hg Hok. cbn [cobj]. rewrite (collected_plain s frags rt sub Hf Hnd).
    apply andb_true_iff. split; [apply andb_true_iff; split|].
    - apply nodup_str_NoDup. exact Hc.
    - apply forallb_forall. intros e He. apply mem_str_In. rewrite map_map. exact (Hk e He).
    - apply forallb_forall. intros e He. apply in_map_iff in He. destruct He as [y [<- Hy]].
      specialize (Hok y Hy). specialize (Hg y Hy).
      destruct (sel_entry y) as [k [n sb]]. unfold field_ok in *. cbn [fst] in Hg. rewrite Hg. exact Hok.
  Qed.

  Lemma opt_gtype_eq a b : opt_eqb gtype_eqb_gen a b = true -> a = b.
  Proof. destruct a, b; cbn; try discriminate; [|reflexivity]. intros H. f_equal. exact (gtype_eqb_gen_eq _ _ H). Qed.

  Lemma in_combine_exists_r {A B} (l : list A) (l' : list B) b :
    List.length l = List.length l' -> In b l' -> exists a, In (a, b) (combine l l').
  Proof.
    revert l. induction l' as [|y t IH]; intros [|x r] Hl Hin; try discriminate; [destruct Hin|].
    destruct Hin as [->|Hin]; [exists x; left; reflexivity|].
    destruct (IH r (f_equal pred Hl) Hin) as [a Ha]. exists a. right. exact Ha.
  Qed.

  Lemma members_wires rec t fields own needs : members_need s henv env rec t fields own = Some needs ->
    List.length fields = List.length own /\
    forall fd x, In (fd, x) (combine fields own) -> exists a n sb, x = SField a n sb /\ field_wire fd = response_key a n.
  Proof.
    unfold members_need. intros Hm.
    match type of Hm with (if ?c then _ else _) = _ => destruct c eqn:Ec; [|discriminate] end.
    apply andb_true_iff in Ec. destruct Ec as [_ Hlen]. apply Nat.eqb_eq in Hlen. split; [exact Hlen|].
    intros fd x Hx. destruct (map_opt_in _ _ _ _ Hm Hx) as [nd [Hpn _]]. cbn [fst snd] in Hpn.
    unfold pair_need in Hpn. destruct x as [a n sb| |]; try discriminate.
    destruct (String.eqb_spec (field_wire fd) (response_key a n)) as [E|]; [|discriminate].
    exists a, n, sb. split; [reflexivity|exact E].
  Qed.

  (* the struct of a variant accepts what the enum hands to it *)
  Lemma variant_struct_accepts rec : Accepts rec ->
    forall rt sels sub sv nd F2 fj m content,
    forallb (shape_ok s) sels = true -> NoDup (map fst (mixed_entries s rt sels)) ->
    find_kind_sdl s rt = Some KObject ->
    In (SInline (Some rt) sub) sels -> rec sv rt sub = Some nd -> nd <= F2 ->
    (forall entry, In entry (mixed_entries s rt sels) -> field_ok s (cobj s frags fj) rt m entry = true) ->
    NoDup (map fst content) ->
    (forall e, In e content -> In (fst e) (map (fun x => fst (sel_entry x)) sub)) ->
    (forall y, In y sub -> obj_get (fst (sel_entry y)) content = obj_get (fst (sel_entry y)) m) ->
    is_some (deser henv F2 env (RNamed sv) (JObj content)) = true.
  Proof.
    intros Hrec rt sels sub sv nd F2 fj m content Hshape Hnd Hk Hin Hr HF Hall Hc Hkeys Hg.
    assert (Hent : entries_of rt (SInline (Some rt) sub) = map sel_entry sub).
    { cbn [entries_of]. rewrite (applies_object rt rt Hk), String.eqb_refl. reflexivity. }
    rewrite forallb_forall in Hshape. pose proof (Hshape _ Hin) as Hsh. cbn [shape_ok] in Hsh.
    apply andb_true_iff in Hsh. destruct Hsh as [Hsh _]. apply andb_true_iff in Hsh. destruct Hsh as [Hfld _].
    apply (Hrec sv rt sub nd Hr F2 HF (S fj) content rt).
    - unfold possible. rewrite Hk. left. reflexivity.
    - apply (content_conforms rt sub m content fj Hfld); try assumption.
      + rewrite mixed_is_flat_map in Hnd. pose proof (flat_map_seg_nodup (entries_of rt) sels _ Hnd Hin) as H0.
        rewrite Hent, map_map in H0. exact H0.
      + intros y Hy. apply Hall. rewrite mixed_is_flat_map. apply in_flat_map.
        exists (SInline (Some rt) sub). split; [exact Hin|]. rewrite Hent. apply in_map. exact Hy.
  Qed.

  Lemma abs_sound rec : Accepts rec ->
    forall name t sels B, abs_need s henv env rec name t sels = Some B ->
    forall F, B <= F -> forall Fj m rt, In rt (possible s t) -> cobj s frags Fj rt sels m = true ->
    is_some (deser henv F env (RNamed name) (JObj m)) = true.
  Proof.
    intros Hrec name t sels B H F HF Fj m rt Hrt Hc.
    unfold abs_need in H.
    set (own := filter (fun x => is_field x && not_typename x) sels) in *.
    match type of H with (if negb ?c then _ else _) = _ => destruct c eqn:EC; [|discriminate] end. cbn [negb] in H.
    apply andb_true_iff in EC; destruct EC as [EC Hposs].
    apply andb_true_iff in EC; destruct EC as [EC Hprim]. apply negb_true_iff in Hprim.
    apply andb_true_iff in EC; destruct EC as [EC Hinl]. apply nodup_str_NoDup in Hinl.
    apply andb_true_iff in EC; destruct EC as [Hshape Htn].
    rewrite forallb_forall in Hposs. specialize (Hposs rt Hrt).
    apply andb_true_iff in Hposs; destruct Hposs as [Hposs Hownty].
    apply andb_true_iff in Hposs; destruct Hposs as [Hnd Hrtobj]. apply nodup_str_NoDup in Hnd.
    assert (Hrtk : find_kind_sdl s rt = Some KObject) by (destruct (find_kind_sdl s rt) as [[]|]; try discriminate; reflexivity).
    clear Hrtobj.
    (* the payload *)
    destruct Fj as [|fj]; [discriminate|]. cbn [cobj] in Hc.
    rewrite (collected_mixed rt sels Hshape Hnd) in Hc.
    apply andb_true_iff in Hc. destruct Hc as [Hc Hall]. apply andb_true_iff in Hc. destruct Hc as [Hmnd Hkeys].
    apply nodup_str_NoDup in Hmnd. rewrite forallb_forall in Hall. rewrite forallb_forall in Hkeys.
    (* __typename *)
    apply existsb_exists in Htn. destruct Htn as [xt [Hxt Hxt']]. destruct xt as [[|] nt subt| |]; try discriminate.
    apply String.eqb_eq in Hxt'. subst nt.
    assert (Htin : In ("__typename", ("__typename", subt)) (mixed_entries s rt sels)).
    { rewrite mixed_is_flat_map. apply in_flat_map. exists (SField None "__typename" subt). split; [exact Hxt|left; reflexivity]. }
    pose proof (Hall _ Htin) as Htok. unfold field_ok in Htok.
    destruct (obj_get "__typename" m) as [vt|] eqn:Egt; [|discriminate]. cbn in Htok. apply json_eqb_str in Htok. subst vt.
    pose proof Hshape as Hshape'. rewrite forallb_forall in Hshape'.
    (* where a key of the payload can come from *)
    assert (Hcls : forall k, In k (map fst (mixed_entries s rt sels)) ->
              (exists a n sb, In (SField a n sb) sels /\ k = response_key a n) \/
              (exists sb y, In (SInline (Some rt) sb) sels /\ In y sb /\ k = fst (sel_entry y))).
    { intros k Hk. apply in_map_iff in Hk. destruct Hk as [e [<- He]]. rewrite mixed_is_flat_map in He.
      apply in_flat_map in He. destruct He as [x [Hx Hex]].
      destruct x as [a n sb|[v|] sb|]; cbn [entries_of] in Hex; try contradiction.
      - destruct Hex as [<-|[]]. left. exists a, n, sb. split; [exact Hx|reflexivity].
      - pose proof (Hshape' _ Hx) as Hsh. cbn [shape_ok] in Hsh. apply andb_true_iff in Hsh. destruct Hsh as [_ Hv].
        assert (Hvk : find_kind_sdl s v = Some KObject) by (destruct (find_kind_sdl s v) as [[]|]; try discriminate; reflexivity).
        rewrite (applies_object rt v Hvk) in Hex. destruct (String.eqb_spec rt v) as [<-|]; [|contradiction].
        apply in_map_iff in Hex. destruct Hex as [y [<- Hy]]. right. exists sb, y. repeat split; assumption. }
    (* keys of an inline fragment on rt are not __typename and differ from the keys of fields *)
    assert (Hsubkeys : forall sb y, In (SInline (Some rt) sb) sels -> In y sb ->
              forall a n sb', In (SField a n sb') sels -> fst (sel_entry y) <> response_key a n).
    { intros sb y Hsb Hy a n sb' Hf. rewrite mixed_is_flat_map in Hnd.
      apply (flat_map_keys_disjoint (entries_of rt) sels (SInline (Some rt) sb) (SField a n sb') (sel_entry y) (sel_entry (SField a n sb')) Hnd Hsb Hf).
      - discriminate.
      - cbn [entries_of]. rewrite (applies_object rt rt Hrtk), String.eqb_refl. apply in_map. exact Hy.
      - left. reflexivity. }
    (* the variant for rt *)
    assert (Hvar : forall variants vn, variants_need s rec t sels variants = Some vn ->
              exists var nd, find (fun v => String.eqb (variant_wire v) rt) variants = Some var /\ In nd vn /\
                match v_payload var, assoc rt (inlines sels) with
                | None, None => True
                | Some (RNamed sv), Some sub => rec sv rt sub = Some nd
                | _, _ => False
                end).
    { intros variants vn Hv. unfold variants_need in Hv.
      destruct (forallb (fun v => mem_str (variant_wire v) (possible s t) || v_other v) variants); [|discriminate]. cbn [negb] in Hv.
      destruct (map_opt_in _ _ _ _ Hv Hrt) as [nd [Hnd1 Hnd2]].
      destruct (find (fun v => String.eqb (variant_wire v) rt) variants) as [var|]; [|discriminate].
      exists var, nd. split; [reflexivity|]. split; [exact Hnd2|].
      destruct (v_payload var) as [[sv| | | |]|]; destruct (assoc rt (inlines sels)); try discriminate; try exact I.
      exact Hnd1. }
    (* what a tagged enum does with an object whose __typename is rt, given how the remaining keys
       relate to the payload *)
    assert (Henum : forall variants vn F2 (m2 : list (string * json)),
              variants_need s rec t sels variants = Some vn -> list_max vn <= F2 ->
              NoDup (map fst m2) -> obj_get "__typename" m2 = Some (JStr rt) ->
              (forall e, In e m2 -> fst e <> "__typename" ->
                 exists sb y, In (SInline (Some rt) sb) sels /\ In y sb /\ fst e = fst (sel_entry y)) ->
              (forall sb y, In (SInline (Some rt) sb) sels -> In y sb ->
                 obj_get (fst (sel_entry y)) m2 = obj_get (fst (sel_entry y)) m) ->
              is_some (deser_tagged (deser henv F2 env) "__typename" variants m2) = true).
    { intros variants vn F2 m2 Hv HF2 Hnd2 Hg2 Hk2 Ho2.
      destruct (Hvar variants vn Hv) as [var [nd [Hfind [Hndin Hpay]]]].
      apply (tagged_accepts _ "__typename" variants m2 rt var Hnd2 Hg2 Hfind).
      destruct (v_payload var) as [[sv| | | |]|]; try exact I; try contradiction.
      destruct (assoc rt (inlines sels)) as [sub|] eqn:Eas; [|contradiction].
      pose proof (assoc_inlines rt sub sels Eas) as Hsubin.
      apply (variant_struct_accepts rec Hrec rt sels sub sv nd F2 fj m _ Hshape Hnd Hrtk Hsubin Hpay).
      - pose proof (in_list_max _ _ Hndin). lia.
      - exact Hall.
      - apply nodup_keys_filter. exact Hnd2.
      - intros e He. apply filter_In in He. destruct He as [He Hne]. apply negb_true_iff in Hne.
        apply String.eqb_neq in Hne. destruct (Hk2 e He Hne) as [sb [y [Hsb [Hy Hey]]]].
        rewrite (inlines_unique rt sub sb sels Hinl Hsubin Hsb). rewrite Hey.
        apply in_map_iff. exists y. split; [reflexivity|exact Hy].
      - intros y Hy. rewrite obj_get_filter; [exact (Ho2 sub y Hsubin Hy)|].
        intros v. cbn [fst]. apply negb_true_iff. apply String.eqb_neq.
        exact (Hsubkeys sub y Hsubin Hy None "__typename" subt Hxt). }
    destruct own as [|o1 orest] eqn:Eown.
    - (* no fields of its own: the enum is the type *)
      destruct (find_item name env) as [[| |nm d c tag variants| | | | | |]|] eqn:Ef; try discriminate.
      destruct (String.eqb_spec tag "__typename") as [->|]; [|discriminate]. cbn [negb] in H.
      destruct (variants_need s rec t sels variants) as [vn|] eqn:Ev; [|discriminate].
      inversion H; subst B. clear H. destruct F as [|F]; [lia|].
      cbn [deser]. rewrite (prim_deser_none name (JObj m) Hprim), Ef.
      apply (Henum variants vn F m Ev); try assumption; [lia| |].
      + intros e He Hne. specialize (Hkeys e He). apply mem_str_In in Hkeys.
        destruct (Hcls _ Hkeys) as [[a [n [sb [Hf Hk]]]]|[sb [y [Hsb [Hy Hk]]]]].
        * exfalso. (* a field: only __typename is left, since own = [] *)
          assert (Hno : is_field (SField a n sb) && not_typename (SField a n sb) = false).
          { destruct (is_field (SField a n sb) && not_typename (SField a n sb)) eqn:E; [|reflexivity].
            assert (In (SField a n sb) own) by (unfold own; apply filter_In; split; assumption).
            rewrite Eown in H. destruct H. }
          cbn [is_field andb] in Hno. unfold not_typename in Hno. cbn [sel_entry fst snd] in Hno.
          apply negb_false_iff in Hno. apply String.eqb_eq in Hno. subst n.
          pose proof (Hshape' _ Hf) as Hsh. cbn [shape_ok] in Hsh. cbn in Hsh. destruct a; [discriminate|].
          apply Hne. rewrite Hk. reflexivity.
        * exists sb, y. repeat split; assumption.
      + intros; reflexivity.
    - (* fields of its own: a struct whose last member is the flattened enum *)
      destruct (find_item name env) as [[nm d c fields| | | | | | | |]|] eqn:Ef; try discriminate.
      destruct (rev fields) as [|onf rplain] eqn:Erev; [discriminate|].
      destruct (strip_box (f_ty onf)) as [en| | | |] eqn:Een; try discriminate.
      destruct (find_item en env) as [[| |nm2 d2 c2 tag variants| | | | | |]|] eqn:Efe; try discriminate.
      match type of H with (if negb ?c then _ else _) = _ => destruct c eqn:EC2; [|discriminate] end. cbn [negb] in H.
      apply andb_true_iff in EC2; destruct EC2 as [EC2 Hprim2]. apply negb_true_iff in Hprim2.
      apply andb_true_iff in EC2; destruct EC2 as [Htag Hflat]. apply String.eqb_eq in Htag. subst tag.
      destruct (members_need s henv env rec t (rev rplain) (o1 :: orest)) as [needs|] eqn:Em; [|discriminate].
      destruct (variants_need s rec t sels variants) as [vn|] eqn:Ev; [|discriminate].
      inversion H; subst B. clear H.
      assert (Hfields : fields = rev rplain ++ [onf]).
      { rewrite <- (rev_involutive fields), Erev. reflexivity. }
      destruct F as [|[|F]]; try lia.
      assert (Hmx : list_max needs <= S F /\ list_max vn <= F).
      { rewrite list_max_app in HF. lia. }
      destruct Hmx as [Hmx1 Hmx2].
      rewrite <- Eown in Em. rewrite <- Eown in Hownty.
      assert (Hownin : forall x, In x own -> exists a n sub, x = SField a n sub /\ String.eqb n "__typename" = false /\
                 option_map fd_type (field_def s rt n) = option_map fd_type (field_def s t n) /\
                 field_ok s (cobj s frags fj) rt m (sel_entry x) = true /\ In x sels).
      { intros x Hx. pose proof Hx as Hx0. unfold own in Hx. apply filter_In in Hx. destruct Hx as [Hxs Hx].
        apply andb_true_iff in Hx. destruct Hx as [Hxf Hxn]. destruct x as [a n sub| |]; try discriminate.
        exists a, n, sub. split; [reflexivity|]. unfold not_typename in Hxn. cbn [sel_entry fst snd] in Hxn.
        apply negb_true_iff in Hxn. split; [exact Hxn|]. split; [|split; [|exact Hxs]].
        - rewrite forallb_forall in Hownty. specialize (Hownty _ Hx0). cbn in Hownty. exact (opt_gtype_eq _ _ Hownty).
        - apply Hall. rewrite mixed_is_flat_map. apply in_flat_map. exists (SField a n sub). split; [exact Hxs|left; reflexivity]. }
      destruct (members_accept rec Hrec t rt (rev rplain) own needs fj (S F) m Em Hmx1) as [Hplain [Hw [Hi Hmem]]].
      { intros x Hx. destruct (Hownin x Hx) as [a [n [sub [E [H1 [H2 [H3 _]]]]]]]. exists a, n, sub. repeat split; assumption. }
      destruct (members_wires rec t (rev rplain) own needs Em) as [Hlen Hwires].
      (* the wire names of the plain members are exactly the response keys of the own fields *)
      assert (Hwire_own : forall g, In g (rev rplain) -> exists a n sb, In (SField a n sb) sels /\
                  String.eqb n "__typename" = false /\ field_wire g = response_key a n).
      { intros g Hg. destruct (in_combine_exists (rev rplain) own g Hlen Hg) as [x Hx].
        destruct (Hwires g x Hx) as [a [n [sb [-> Hwk]]]].
        destruct (Hownin _ (in_combine_r _ _ _ _ Hx)) as [a' [n' [sb' [E [Hn' [_ [_ Hxs]]]]]]]. inversion E; subst a' n' sb'.
        exists a, n, sb. repeat split; assumption. }
      assert (Hown_wire : forall a n sb, In (SField a n sb) sels -> String.eqb n "__typename" = false ->
                  find_field (response_key a n) (rev rplain) <> None).
      { intros a n sb Hf Hn.
        assert (Hxo : In (SField a n sb) own).
        { unfold own. apply filter_In. split; [exact Hf|]. cbn [is_field andb]. unfold not_typename. cbn [sel_entry fst snd]. rewrite Hn. reflexivity. }
        destruct (in_combine_exists_r (rev rplain) own _ Hlen Hxo) as [g Hg].
        destruct (Hwires g _ Hg) as [a' [n' [sb' [E Hwk]]]]. inversion E; subst a' n' sb'.
        rewrite (find_field_in _ _ g Hw (in_combine_l _ _ _ _ Hg) Hwk). discriminate. }
      cbn [deser]. rewrite (prim_deser_none name (JObj m) Hprim), Ef. rewrite Hfields.
      apply (struct_on_accepts (deser henv (S F) env) (deser henv (S F) henv) env (rev rplain) onf en Hplain Hw Hi Hflat Een); try assumption.
      { exists nm2, d2, c2, "__typename", variants. exact Efe. }
      cbn [deser]. rewrite (prim_deser_none en _ Hprim2), Efe.
      apply (Henum variants vn F _ Ev Hmx2).
      + apply nodup_keys_filter. exact Hmnd.
      + rewrite obj_get_filter; [exact Egt|]. intros v. unfold not_own. cbn [fst].
        rewrite find_field_absent; [reflexivity|]. intros g Hg Hgw.
        destruct (Hwire_own g Hg) as [a [n [sb [Hf [Hn Hwk]]]]].
        (* the own field and the __typename field would share a key *)
        rewrite mixed_is_flat_map in Hnd.
        apply (flat_map_keys_disjoint (entries_of rt) sels (SField a n sb) (SField None "__typename" subt)
                 (sel_entry (SField a n sb)) (sel_entry (SField None "__typename" subt)) Hnd Hf Hxt).
        * intros E. inversion E; subst. discriminate.
        * left. reflexivity.
        * left. reflexivity.
        * cbn [sel_entry fst]. rewrite <- Hwk, Hgw. reflexivity.
      + intros e He Hne. apply filter_In in He. destruct He as [He Hno].
        specialize (Hkeys e He). apply mem_str_In in Hkeys.
        destruct (Hcls _ Hkeys) as [[a [n [sb [Hf Hk]]]]|[sb [y [Hsb [Hy Hk]]]]].
        * exfalso. destruct (String.eqb n "__typename") eqn:En.
          -- apply String.eqb_eq in En. subst n.
             pose proof (Hshape' _ Hf) as Hsh. cbn [shape_ok] in Hsh. cbn in Hsh. destruct a; [discriminate|].
             apply Hne. rewrite Hk. reflexivity.
          -- unfold not_own in Hno. rewrite Hk in Hno.
             destruct (find_field (response_key a n) (rev rplain)) eqn:Eff; [discriminate|].
             exact (Hown_wire a n sb Hf En Eff).
        * exists sb, y. repeat split; assumption.
      + intros sb y Hsb Hy. rewrite obj_get_filter; [reflexivity|].
        intros v. unfold not_own. cbn [fst]. rewrite find_field_absent; [reflexivity|].
        intros g Hg Hgw. destruct (Hwire_own g Hg) as [a [n [sb' [Hf [Hn Hwk]]]]].
        apply (Hsubkeys sb y Hsb Hy a n sb' Hf). rewrite <- Hwk, Hgw. reflexivity.
  Qed.


  (* ---- CollectFields on a selection of fields and spreads of field-only fragments on the same object type *)
  Fixpoint vis_after (names vis : list string) : list string :=
    match names with [] => vis | n :: r => vis_after r (n :: vis) end.

  Lemma frag_fields_some t n fsel : frag_fields frags t n = Some fsel ->
    exists c, assoc n frags = Some (c, fsel) /\ c = t /\ forallb is_field fsel = true /\ forallb not_typename fsel = true.
  Proof.
    unfold frag_fields. destruct (assoc n frags) as [[c fs]|]; [|discriminate].
    destruct (String.eqb c t && forallb is_field fs && forallb not_typename fs) eqn:E; [|discriminate].
    intros H. inversion H; subst fs. apply andb_true_iff in E. destruct E as [E H3]. apply andb_true_iff in E. destruct E as [H1 H2].
    apply String.eqb_eq in H1. exists c. repeat split; assumption.
  Qed.

  Lemma collect_spreads f t : find_kind_sdl s t = Some KObject -> forall sels vis,
    forallb (fun x => match x with
                      | SField _ _ _ => true
                      | SSpread n => match frag_fields frags t n with Some _ => true | None => false end
                      | _ => false end) sels = true ->
    NoDup (spread_names sels) -> (forall n, In n (spread_names sels) -> ~ In n vis) ->
    collect_fields s frags (S (S f)) t vis sels = (sentries frags t sels, vis_after (spread_names sels) vis).
  Proof.
    intros Hk. change (S (S f)) with (S (S f)). intros sels.
    remember (S f) as f1 eqn:Ef1. cbn [collect_fields]. unfold sentries, spread_names.
    induction sels as [|x r IH]; intros vis Hsh Hnd Hvis; [reflexivity|].
    cbn [forallb] in Hsh. apply andb_true_iff in Hsh. destruct Hsh as [Hx Hr].
    cbn [flat_map]. destruct x as [a n sub| |n]; try discriminate.
    - cbn [flat_map app] in Hnd, Hvis. rewrite (IH vis Hr Hnd Hvis). reflexivity.
    - destruct (frag_fields frags t n) as [fsel|] eqn:Eff; [|discriminate].
      destruct (frag_fields_some t n fsel Eff) as [c [Hac [-> [Hfl _]]]].
      cbn [flat_map app] in Hnd, Hvis. inversion Hnd as [|? ? Hnin Hnd']; subst.
      assert (Hm : mem_str n vis = false).
      { destruct (mem_str n vis) eqn:E; [|reflexivity]. apply mem_str_In in E. exfalso. exact (Hvis n (or_introl eq_refl) E). }
      rewrite Hm, Hac. rewrite (applies_object t t Hk), String.eqb_refl.
      rewrite (collect_fields_plain s frags f t (n :: vis) fsel Hfl).
      rewrite (IH (n :: vis) Hr Hnd').
      + reflexivity.
      + intros n' Hn' [E|Hin]; [subst n'; exact (Hnin Hn')|exact (Hvis n' (or_intror Hn') Hin)].
  Qed.

  Lemma nodup_flat_map_sub {A B} (g g' : A -> list B) (p : A -> bool) l :
    NoDup (flat_map g l) -> (forall x, g' x = g x \/ g' x = []) -> NoDup (flat_map g' (filter p l)).
  Proof.
    induction l as [|x r IH]; intros Hnd Hg; [constructor|].
    cbn [flat_map] in Hnd. apply NoDup_app_iff in Hnd. destruct Hnd as [H1 [H2 Hdis]].
    cbn [filter]. destruct (p x); [|exact (IH H2 Hg)].
    cbn [flat_map]. apply NoDup_app_iff. split; [|split].
    - destruct (Hg x) as [E|E]; rewrite E; [exact H1|constructor].
    - exact (IH H2 Hg).
    - intros y Hy Hin. destruct (Hg x) as [E|E]; rewrite E in Hy; [|destruct Hy].
      apply (Hdis y Hy). apply in_flat_map in Hin. destruct Hin as [z [Hz Hyz]]. apply filter_In in Hz.
      apply in_flat_map. exists z. split; [exact (proj1 Hz)|].
      destruct (Hg z) as [E'|E']; rewrite E' in Hyz; [exact Hyz|destruct Hyz].
  Qed.


  Lemma objs_sound rec : Accepts rec ->
    forall name t sels B, find_kind_sdl s t = Some KObject -> objs_need s frags henv env rec name t sels = Some B ->
    forall F, B <= F -> forall Fj m rt, In rt (possible s t) -> cobj s frags Fj rt sels m = true ->
    is_some (deser henv F env (RNamed name) (JObj m)) = true.
  Proof.
    intros Hrec name t sels B Ek H F HF Fj m rt Hrt Hc.
    assert (rt = t) as ->.
    { unfold possible in Hrt. rewrite Ek in Hrt. destruct Hrt as [<-|[]]. reflexivity. }
    unfold objs_need in H.
    set (msels := filter (fun x => match x with SField _ _ _ => not_typename x | _ => true end) sels) in *.
    match type of H with (if negb ?c then _ else _) = _ => destruct c eqn:EC; [|discriminate] end. cbn [negb] in H.
    apply andb_true_iff in EC; destruct EC as [EC Hprim]. apply negb_true_iff in Hprim.
    apply andb_true_iff in EC; destruct EC as [EC Hnd]. apply nodup_str_NoDup in Hnd.
    apply andb_true_iff in EC; destruct EC as [Hshape Hsn]. apply nodup_str_NoDup in Hsn.
    destruct (find_item name env) as [[nm d c fields| | | | | | | |]|] eqn:Ef; try discriminate.
    set (own := filter (fun fd => negb (f_flatten fd)) fields) in *.
    match type of H with (if negb ?c then _ else _) = _ => destruct c eqn:EC2; [|discriminate] end. cbn [negb] in H.
    apply andb_true_iff in EC2; destruct EC2 as [EC2 Hlen]. apply Nat.eqb_eq in Hlen.
    apply andb_true_iff in EC2; destruct EC2 as [Hw Hi]. apply nodup_str_NoDup in Hw. apply nodup_str_NoDup in Hi.
    destruct (map_opt (fun p => smember_need s frags henv env rec t (fst p) (snd p)) (combine fields msels)) as [needs|] eqn:Em; [|discriminate].
    inversion H; subst B. clear H.
    destruct F as [|F]; [lia|].
    (* the payload *)
    destruct Fj as [|fj]; [discriminate|]. cbn [cobj] in Hc.
    assert (Hcoll : collected s frags t sels = sentries frags t sels).
    { unfold collected.
      destruct (List.length frags) as [|lf] eqn:Elf.
      - (* no fragments at all: then there is no spread, and the lists agree trivially *)
        destruct frags; [|discriminate]. 
        assert (Hns : forall x, In x sels -> match x with SField _ _ _ => True | _ => False end).
        { intros x Hx. rewrite forallb_forall in Hshape. specialize (Hshape x Hx). destruct x as [| |n]; try discriminate; exact I. }
        assert (Hf : forallb is_field sels = true).
        { apply forallb_forall. intros x Hx. specialize (Hns x Hx). destruct x; try contradiction. reflexivity. }
        rewrite (collect_fields_plain s [] 0 t [] sels Hf). cbn [fst].
        assert (Hse : sentries [] t sels = map sel_entry sels).
        { unfold sentries. clear -Hns. induction sels as [|x r IH]; [reflexivity|]. cbn [flat_map map].
          pose proof (Hns x (or_introl eq_refl)). destruct x; try contradiction. cbn [app]. f_equal. apply IH. intros y Hy. apply Hns. right. exact Hy. }
        rewrite Hse. apply merge_fields_nodup. rewrite Hse in Hnd. exact Hnd.
      - rewrite (collect_spreads lf t Ek sels [] Hshape Hsn (fun n _ X => X)). cbn [fst].
        apply merge_fields_nodup. exact Hnd. }
    rewrite Hcoll in Hc.
    apply andb_true_iff in Hc. destruct Hc as [Hc Hall]. apply andb_true_iff in Hc. destruct Hc as [Hmnd Hkeys].
    apply nodup_str_NoDup in Hmnd. rewrite forallb_forall in Hall.
    pose proof Hshape as Hshape'. rewrite forallb_forall in Hshape'.
    (* pairing facts *)
    assert (Hpair : forall fd x, In (fd, x) (combine fields msels) -> exists nd, smember_need s frags henv env rec t fd x = Some nd /\ nd <= F).
    { intros fd x Hx. destruct (map_opt_in _ _ _ _ Em Hx) as [nd [Hpn Hin]]. exists nd. split; [exact Hpn|].
      pose proof (in_list_max _ _ Hin). lia. }
    assert (Hmsel : forall x, In x msels -> In x sels).
    { intros x Hx. unfold msels in Hx. apply filter_In in Hx. exact (proj1 Hx). }
    (* wire names of plain members are keys of selected fields *)
    assert (Hown_field : forall g, In g own -> exists a n sb nd, In (g, SField a n sb) (combine fields msels) /\
               pair_need s henv env rec t g (SField a n sb) = Some nd /\ nd <= F /\ String.eqb n "__typename" = false).
    { intros g Hg. unfold own in Hg. apply filter_In in Hg. destruct Hg as [Hgf Hgp]. apply negb_true_iff in Hgp.
      destruct (in_combine_exists fields msels g Hlen Hgf) as [x Hx].
      destruct (Hpair g x Hx) as [nd [Hpn Hle]]. unfold smember_need in Hpn.
      destruct x as [a n sb| |n].
      - rewrite Hgp in Hpn. exists a, n, sb, nd. repeat split; try assumption.
        pose proof (in_combine_r _ _ _ _ Hx) as Hxm. unfold msels in Hxm. apply filter_In in Hxm. destruct Hxm as [_ Hnt].
        unfold not_typename in Hnt. cbn [sel_entry fst snd] in Hnt. apply negb_true_iff in Hnt. exact Hnt.
      - discriminate.
      - destruct (frag_fields frags t n); [|discriminate]. destruct (strip_box (f_ty g)); try discriminate.
        destruct (find_item n env) as [[]|]; try discriminate. rewrite Hgp in Hpn. cbn [andb] in Hpn. discriminate. }
    cbn [deser]. rewrite (prim_deser_none name (JObj m) Hprim), Ef.
    apply (mixed_struct_accepts (deser henv F env) (deser henv F henv) env fields m); fold own; try assumption.
    - (* plain members *)
      intros g Hg. destruct (Hown_field g Hg) as [a [n [sb [nd [Hin [Hpn [Hle Hnt]]]]]]].
      apply (member_accepts rec Hrec t t g a n sb nd fj F m Hpn Hle Hnt eq_refl).
      apply Hall. unfold sentries. apply in_flat_map. exists (SField a n sb). split; [|left; reflexivity].
      apply Hmsel. exact (in_combine_r _ _ _ _ Hin).
    - (* flattened fragment members *)
      intros fd Hfd Hfl. destruct (in_combine_exists fields msels fd Hlen Hfd) as [x Hx].
      destruct (Hpair fd x Hx) as [nd [Hpn Hle]]. unfold smember_need in Hpn.
      destruct x as [a n sb| |n]; [rewrite Hfl in Hpn; discriminate|discriminate|].
      destruct (frag_fields frags t n) as [fsel|] eqn:Eff; [|discriminate].
      destruct (strip_box (f_ty fd)) as [n'| | | |] eqn:Est; try discriminate.
      destruct (find_item n env) as [[a0 b0 c0 tf| | | | | | | |]|] eqn:Efn; try discriminate.
      match type of Hpn with (if ?c then _ else _) = _ => destruct c eqn:EC3; [|discriminate] end.
      apply andb_true_iff in EC3; destruct EC3 as [EC3 Hwires]. apply andb_true_iff in EC3; destruct EC3 as [EC3 Hnf].
      apply andb_true_iff in EC3; destruct EC3 as [_ Hnn]. apply String.eqb_eq in Hnn. subst n'.
      apply negb_true_iff in Hnf.
      assert (Hwires' : map field_wire tf = map (fun y => fst (sel_entry y)) fsel).
      { clear -Hwires. revert Hwires. generalize (map field_wire tf) (map (fun y => fst (sel_entry y)) fsel).
        induction l as [|x r IH]; intros [|y t0] H; cbn in H; try discriminate; [reflexivity|].
        apply andb_true_iff in H. destruct H as [H1 H2]. apply String.eqb_eq in H1. f_equal; [exact H1|exact (IH _ H2)]. }
      exists n, a0, b0, c0, tf. split; [reflexivity|]. split; [exact Efn|]. split; [exact Hnf|].
      destruct (frag_fields_some t n fsel Eff) as [cc [Hac [_ [Hffl Hfnt]]]].
      pose proof (Hmsel _ (in_combine_r _ _ _ _ Hx)) as Hxs.
      assert (Hseg : forall y, In y fsel -> In (sel_entry y) (sentries frags t sels)).
      { intros y Hy. unfold sentries. apply in_flat_map. exists (SSpread n). split; [exact Hxs|]. rewrite Eff. apply in_map. exact Hy. }
      destruct fsel as [|y0 fs0] eqn:Efs; [discriminate|]. rewrite <- Efs in *.
      apply (Hrec n t fsel nd Hpn F Hle (S fj) _ t); [unfold possible; rewrite Ek; left; reflexivity|].
      apply (content_conforms t fsel m _ fj Hffl).
      + (* keys of the fragment are distinct *)
        unfold sentries in Hnd.
        pose proof (flat_map_seg_nodup (fun x => match x with
                       | SField _ _ _ => [sel_entry x]
                       | SSpread n0 => match frag_fields frags t n0 with Some fsel0 => map sel_entry fsel0 | None => [] end
                       | _ => [] end) sels (SSpread n) Hnd Hxs) as H0.
        cbn beta iota in H0. rewrite Eff, map_map in H0. exact H0.
      + unfold keys_in. apply nodup_keys_filter. apply nodup_keys_filter. exact Hmnd.
      + intros e He. unfold keys_in in He. apply filter_In in He. destruct He as [_ Hk]. apply mem_str_In in Hk.
        rewrite Hwires' in Hk. exact Hk.
      + intros y Hy. unfold keys_in. rewrite obj_get_filter.
        * rewrite obj_get_filter; [reflexivity|].
          intros v. unfold not_own. cbn [fst]. rewrite find_field_absent; [reflexivity|].
          intros g Hg Hgw. destruct (Hown_field g Hg) as [a [n1 [sb [nd1 [Hin [Hpn1 [_ _]]]]]]].
          unfold pair_need in Hpn1. destruct (String.eqb_spec (field_wire g) (response_key a n1)) as [Hwk|]; [|discriminate].
          unfold sentries in Hnd.
          apply (flat_map_keys_disjoint _ sels (SSpread n) (SField a n1 sb) (sel_entry y) (sel_entry (SField a n1 sb)) Hnd Hxs
                   (Hmsel _ (in_combine_r _ _ _ _ Hin))); [discriminate| |left; reflexivity|].
          -- cbn beta iota. rewrite Eff. apply in_map. exact Hy.
          -- cbn [sel_entry fst]. rewrite <- Hwk, Hgw. reflexivity.
        * intros v. cbn [fst]. apply mem_str_In. rewrite Hwires'. apply in_map_iff. exists y. split; [reflexivity|exact Hy].
      + intros y Hy. apply Hall. exact (Hseg y Hy).
    - (* the key sets of the flattened members are pairwise disjoint *)
      assert (Hnames : flat_map (names_of env) fields =
                flat_map (fun x => match x with
                                   | SSpread n => match frag_fields frags t n with
                                                  | Some fsel => map fst (map sel_entry fsel) | None => [] end
                                   | _ => [] end) msels).
      { clear -Hpair Hlen. revert Hpair Hlen. generalize msels. induction fields as [|fd r IH]; intros [|x ms] Hp Hl; try discriminate; [reflexivity|].
        cbn [flat_map]. f_equal.
        - destruct (Hp fd x (or_introl eq_refl)) as [nd [Hpn _]]. unfold smember_need in Hpn. unfold names_of.
          destruct x as [a n sb| |n]; try discriminate.
          + destruct (f_flatten fd); [discriminate|reflexivity].
          + destruct (frag_fields frags t n) as [fsel|]; [|discriminate].
            destruct (strip_box (f_ty fd)) as [n'| | | |]; try discriminate.
            destruct (find_item n env) as [[a0 b0 c0 tf| | | | | | | |]|] eqn:Efn; try discriminate.
            match type of Hpn with (if ?c then _ else _) = _ => destruct c eqn:EC3; [|discriminate] end.
            apply andb_true_iff in EC3; destruct EC3 as [EC3 Hwires]. apply andb_true_iff in EC3; destruct EC3 as [EC3 _].
            apply andb_true_iff in EC3; destruct EC3 as [Hfl Hnn]. apply String.eqb_eq in Hnn. subst n'.
            rewrite Hfl, Efn. rewrite map_map.
            clear -Hwires. revert Hwires. generalize (map field_wire tf) (map (fun y => fst (sel_entry y)) fsel).
            induction l as [|x r IH]; intros [|y t0] H; cbn in H; try discriminate; [reflexivity|].
            apply andb_true_iff in H. destruct H as [H1 H2]. apply String.eqb_eq in H1. f_equal; [exact H1|exact (IH _ H2)].
        - apply IH; [intros g y Hgy; apply Hp; right; exact Hgy|exact (f_equal pred Hl)]. }
      rewrite Hnames. unfold msels.
      apply (nodup_flat_map_sub (fun x => map fst (match x with
                       | SField _ _ _ => [sel_entry x]
                       | SSpread n0 => match frag_fields frags t n0 with Some fsel0 => map sel_entry fsel0 | None => [] end
                       | _ => [] end))).
      + unfold sentries in Hnd. clear -Hnd. revert Hnd. generalize sels. induction sels0 as [|x r IH]; intros H; [constructor|].
        cbn [flat_map] in *. rewrite map_app in H. apply NoDup_app_iff in H. destruct H as [H1 [H2 H3]].
        apply NoDup_app_iff. split; [exact H1|]. split; [exact (IH H2)|].
        intros k Hk Hin. apply (H3 k Hk). clear -Hin. induction r as [|y r' IHr]; [destruct Hin|].
        cbn [flat_map] in *. rewrite map_app. apply in_app_or in Hin. apply in_or_app. destruct Hin as [Hin|Hin]; [left; exact Hin|right; exact (IHr Hin)].
      + intros x. destruct x as [a n sb| |n]; [right; reflexivity|right; reflexivity|].
        destruct (frag_fields frags t n); [left; reflexivity|left; reflexivity].
  Qed.

  Theorem sel_accepts : forall fuel, Accepts (sel_need s frags henv env fuel).
  Proof.
    induction fuel as [|f IH]; intros name t sels B H; [discriminate|].
    cbn [sel_need] in H. destruct (find_kind_sdl s t) as [[| | | | |]|] eqn:Ek; try discriminate.
    - destruct (has_spread sels); [exact (objs_sound _ IH name t sels B Ek H)|exact (obj_sound _ IH name t sels B Ek H)].
    - exact (abs_sound _ IH name t sels B H).
    - exact (abs_sound _ IH name t sels B H).
  Qed.
End Soundness.


(* ---------- for a whole operation: if the checker certifies the root struct, every conforming
   `data` payload of every size is accepted *)
Definition certify (s : aschema) (henv env : list ritem) (doc : list qdef) (op : string) : option nat :=
  match find_op doc op with
  | Some (k, _, sels) =>
      match root_type s k with
      | Some root =>
          match find_kind_sdl s root with
          | Some KObject => sel_need s (frag_defs doc) henv env (S (fold_right (fun y a => sel_size y + a) 0 sels)) "ResponseData" root sels
          | _ => None
          end
      | None => None
      end
  | None => None
  end.

Theorem certified_accepts_all s henv env doc op B :
  certify s henv env doc op = Some B ->
  forall F data, B <= F -> conforms s doc op data = true ->
  is_some (deser henv F env (RNamed "ResponseData") data) = true.
Proof.
  unfold certify, conforms. intros H F data HF Hc.
  destruct (find_op doc op) as [[[k vars] sels]|]; [|discriminate].
  destruct (root_type s k) as [root|]; [|discriminate].
  destruct (find_kind_sdl s root) as [[| | | | |]|] eqn:Ek; try discriminate.
  assert (Er : In root (possible s root)) by (unfold possible; rewrite Ek; left; reflexivity).
  destruct data as [| | | | | |m]; try discriminate.
  exact (sel_accepts s (frag_defs doc) henv env _ "ResponseData" root sels B H F HF _ m root Er Hc).
Qed.
