(* Compose.v — C01, composition for the fragment-free, object-only subset, as a CERTIFYING CHECKER:
   `plain_ok` inspects the items of a module against a selection set; the theorem says that for
   any items the checker accepts, EVERY conforming payload (Conform.cobj, all sizes, all depths)
   is accepted by the deserializer of those items.  The checker is evaluated on the generator
   model's items per case; the theorem is about all payloads. *)
From GC Require Import Base Rust Json TypeExpr TypeExprProofs Schema Query Enums Serde SerdeLemmas Conform RespProofs.

(* ---------- one-directional version of the type-expression layer (no assumption on null) *)
Section TypeConforming.
  Variables (henv env : list ritem) (n : string) (leaf : json -> bool) (F0 : nat).
  Hypothesis Hleaf : forall F j, F0 <= F -> is_null j = false -> leaf j = true ->
                                 is_some (deser henv F env (RNamed n) j) = true.

  Lemma conforming_both t : wf_gtype t = true ->
    (forall F j, F0 + wraps t + 1 <= F -> ctype leaf true t j = true ->
       is_some (deser henv F env (spec_rust (rename t n)) j) = true) /\
    (match t with GNonNull _ => True | _ =>
       forall F j, F0 + wraps t <= F -> ctype leaf false t j = true ->
         is_some (deser henv F env (core (rename t n)) j) = true end).
  Proof.
    induction t as [m|u IH|u IH]; intros Hwf.
    - split.
      + intros F j HF Hc. destruct F as [|F]; [lia|]. cbn [rename spec_rust core].
        rewrite (deser_option henv env). cbn [ctype] in Hc.
        destruct (is_null j) eqn:E; [reflexivity|]. rewrite is_some_option_map.
        apply Hleaf; [cbn in HF; lia|exact E|exact Hc].
      + intros F j HF Hc. cbn [rename core]. cbn [ctype] in Hc.
        destruct (is_null j) eqn:E; [discriminate|]. apply Hleaf; [cbn in HF; lia|exact E|exact Hc].
    - cbn [wf_gtype] in Hwf. destruct (IH Hwf) as [IHs _].
      assert (Hcore : forall F j, F0 + wraps (GList u) <= F -> ctype leaf false (GList u) j = true ->
                is_some (deser henv F env (core (rename (GList u) n)) j) = true).
      { intros F j HF Hc. cbn [rename]. rewrite core_list. destruct F as [|F]; [cbn in HF; lia|].
        rewrite (deser_vec henv env). cbn [ctype] in Hc.
        destruct j; try discriminate. cbn [is_null] in Hc.
        rewrite is_some_option_map, is_some_map_opt. rewrite forallb_forall in Hc |- *.
        intros x Hx. apply IHs; [cbn [wraps] in HF; lia|apply Hc; exact Hx]. }
      split; [|exact Hcore].
      intros F j HF Hc. cbn [rename]. rewrite spec_nullable_list. destruct F as [|F]; [lia|].
      rewrite (deser_option henv env). destruct (is_null j) eqn:E; [reflexivity|].
      rewrite is_some_option_map.
      specialize (Hcore F j). cbn [rename] in Hcore. rewrite core_list in Hcore. apply Hcore; [lia|].
      cbn [ctype] in Hc |- *. rewrite E in Hc |- *. exact Hc.
    - split; [|exact I]. cbn [wf_gtype] in Hwf.
      destruct u as [m|v|v]; [| |discriminate].
      + destruct (IH Hwf) as [_ IHc]. intros F j HF Hc. cbn [rename spec_rust]. cbn [ctype] in Hc.
        apply IHc; [cbn [wraps] in *; lia|exact Hc].
      + destruct (IH Hwf) as [_ IHc]. intros F j HF Hc. cbn [rename spec_rust]. cbn [ctype] in Hc.
        specialize (IHc F j). cbn [rename] in IHc. apply IHc; [cbn [wraps] in *; lia|exact Hc].
  Qed.

  Theorem field_type_accepts_conforming t r : wf_gtype t = true -> decorate n (quals_sdl t) = Some r ->
    forall F j, F0 + wraps t + 1 <= F -> ctype leaf true t j = true -> is_some (deser henv F env r j) = true.
  Proof.
    intros Hwf Hd. rewrite (decorate_leaf t n Hwf) in Hd. inversion Hd; subst r.
    exact (proj1 (conforming_both t Hwf)).
  Qed.
End TypeConforming.

(* ---------- selections that consist of fields only *)
Definition is_field (x : sel) : bool := match x with SField _ _ _ => true | _ => false end.
Definition sel_entry (x : sel) : string * (string * list sel) :=
  match x with SField a n sub => (response_key a n, (n, sub)) | _ => ("", ("", [])) end.

Section Plain.
  Variable s : aschema.
  Variable frags : list (string * (string * list sel)).

  Lemma collect_fields_plain fuel rt visited sels : forallb is_field sels = true ->
    collect_fields s frags (S fuel) rt visited sels = (map sel_entry sels, visited).
  Proof.
    intros H. cbn [collect_fields].
    induction sels as [|x r IH]; [reflexivity|].
    cbn [forallb] in H. apply andb_true_iff in H. destruct H as [Hx Hr].
    destruct x as [a n sub| |]; try discriminate.
    rewrite (IH Hr). reflexivity.
  Qed.

  Lemma merge_into_fresh acc k n sub : ~ In k (map fst acc) -> merge_into acc k n sub = acc ++ [(k, (n, sub))].
  Proof.
    induction acc as [|[k' [n' sub']] r IH]; intros H; [reflexivity|].
    cbn [merge_into]. destruct (String.eqb_spec k k') as [->|Hne].
    - exfalso. apply H. left. reflexivity.
    - cbn [app]. f_equal. apply IH. intros X. apply H. right. exact X.
  Qed.

  Lemma merge_fields_nodup_aux l : forall acc, NoDup (map fst acc ++ map fst l) ->
    fold_left (fun acc e => merge_into acc (fst e) (fst (snd e)) (snd (snd e))) l acc = acc ++ l.
  Proof.
    induction l as [|[k [n sub]] r IH]; intros acc H; cbn [fold_left]; [rewrite app_nil_r; reflexivity|].
    cbn [fst snd]. rewrite merge_into_fresh.
    - rewrite IH.
      + rewrite <- app_assoc. reflexivity.
      + rewrite map_app, <- app_assoc. exact H.
    - cbn [map fst] in H. apply NoDup_remove_2 in H. intros X. apply H. apply in_or_app. left. exact X.
  Qed.

  Lemma merge_fields_nodup l : NoDup (map fst l) -> merge_fields l = l.
  Proof. intros H. unfold merge_fields. rewrite merge_fields_nodup_aux; [reflexivity|exact H]. Qed.

  Lemma collected_plain rt sels : forallb is_field sels = true -> NoDup (map (fun x => fst (sel_entry x)) sels) ->
    collected s frags rt sels = map sel_entry sels.
  Proof.
    intros Hf Hnd. unfold collected. rewrite collect_fields_plain by exact Hf. cbn [fst].
    apply merge_fields_nodup. rewrite map_map. exact Hnd.
  Qed.
End Plain.


(* ---------- ID leaves: the three helpers of graphql_client::serde_with, over the TRANSLATED
   declaration of IntOrString *)
Definition henv_ok (henv : list ritem) : bool :=
  match find_item "IntOrString" henv with
  | Some (IUntagged _ _ [v1; v2]) =>
      String.eqb (v_ident v1) "Int" && opt_eqb rtype_eqb (v_payload v1) (Some (RNamed "i64")) &&
      String.eqb (v_ident v2) "Str" && opt_eqb rtype_eqb (v_payload v2) (Some (RNamed "String"))
  | _ => false
  end.

Definition id_leaf (j : json) : bool := match j with JStr _ => true | JInt z => in_i64 z | _ => false end.

Section IdLeaves.
  Variable henv : list ritem.
  Hypothesis Hh : henv_ok henv = true.

  Lemma henv_items : exists n d r1 o1 r2 o2,
    find_item "IntOrString" henv =
      Some (IUntagged n d [mkVariant "Int" r1 (Some (RNamed "i64")) o1; mkVariant "Str" r2 (Some (RNamed "String")) o2]).
  Proof.
    pose proof Hh as H0. unfold henv_ok in H0.
    destruct (find_item "IntOrString" henv) as [[| | | |n d [|v1 [|v2 [|? ?]]]| | | |]|]; try discriminate.
    destruct v1 as [i1 r1 [p1|] o1]; cbn [v_ident v_payload opt_eqb] in H0;
      [|rewrite andb_false_r in H0; cbn in H0; discriminate].
    destruct v2 as [i2 r2 [p2|] o2]; cbn [v_ident v_payload opt_eqb] in H0; [|rewrite andb_false_r in H0; discriminate].
    apply andb_true_iff in H0. destruct H0 as [H0 H4]. apply andb_true_iff in H0. destruct H0 as [H0 H3].
    apply andb_true_iff in H0. destruct H0 as [H1 H2].
    apply String.eqb_eq in H1. apply String.eqb_eq in H3. apply rtype_eqb_eq in H2. apply rtype_eqb_eq in H4.
    subst. exists n, d, r1, o1, r2, o2. reflexivity.
  Qed.

  Lemma ios_eval F j :
    deser henv (S (S F)) henv (RNamed "IntOrString") j =
      match j with
      | JInt z => if in_i64 z then Some (VVariant "Int" (Some (VInt z))) else None
      | JStr x => Some (VVariant "Str" (Some (VStr x)))
      | _ => None
      end.
  Proof.
    destruct henv_items as [n [d [r1 [o1 [r2 [o2 E]]]]]].
    cbn [deser]. change (prim_deser "IntOrString" j) with (@None (option rvalue)). cbv iota. rewrite E.
    cbn [deser_untagged v_payload v_ident]. cbn [deser].
    destruct j; cbn; try reflexivity. destruct (in_i64 z); reflexivity.
  Qed.

  Lemma int_or_string_accepts F j : id_leaf j = true ->
    is_some (int_or_string (deser henv (S (S F)) henv) j) = true.
  Proof.
    intros Hl. unfold int_or_string. rewrite ios_eval.
    destruct j; try discriminate; cbn in Hl; [rewrite Hl|]; reflexivity.
  Qed.

  Lemma option_id_accepts F j : (is_null j = true \/ id_leaf j = true) ->
    deser henv (S (S (S F))) henv (ROption (RNamed "IntOrString")) j = Some VNone \/
    (exists z, deser henv (S (S (S F))) henv (ROption (RNamed "IntOrString")) j = Some (VSome (VVariant "Int" (Some (VInt z))))) \/
    (exists x, deser henv (S (S (S F))) henv (ROption (RNamed "IntOrString")) j = Some (VSome (VVariant "Str" (Some (VStr x))))).
  Proof.
    intros Hl.
    change (deser henv (S (S (S F))) henv (ROption (RNamed "IntOrString")) j)
      with (if is_null j then Some VNone else option_map VSome (deser henv (S (S F)) henv (RNamed "IntOrString") j)).
    destruct (is_null j) eqn:En; [left; reflexivity|]. destruct Hl as [Hl|Hl]; [discriminate|].
    rewrite ios_eval. destruct j; try discriminate; cbn in Hl.
    - rewrite Hl. right. left. exists z. reflexivity.
    - right. right. exists s. reflexivity.
  Qed.

  (* IdContainer: any Option / Vec nesting *)
  Lemma id_container_both F t : wf_gtype t = true ->
    (forall j, ctype id_leaf true t j = true ->
       is_some (id_container_deser (deser henv (S (S F)) henv) (spec_rust (rename t "ID")) j) = true) /\
    (match t with GNonNull _ => True | _ =>
       forall j, ctype id_leaf false t j = true ->
         is_some (id_container_deser (deser henv (S (S F)) henv) (core (rename t "ID")) j) = true end).
  Proof.
    induction t as [m|u IH|u IH]; intros Hwf.
    - split.
      + intros j Hc. cbn [rename spec_rust core id_container_deser]. cbn [ctype] in Hc.
        destruct (is_null j) eqn:E; [reflexivity|]. rewrite is_some_option_map. apply int_or_string_accepts. exact Hc.
      + intros j Hc. cbn [rename core id_container_deser]. cbn [ctype] in Hc.
        destruct (is_null j); [discriminate|]. apply int_or_string_accepts. exact Hc.
    - cbn [wf_gtype] in Hwf. destruct (IH Hwf) as [IHs _].
      assert (Hcore : forall j, ctype id_leaf false (GList u) j = true ->
                is_some (id_container_deser (deser henv (S (S F)) henv) (core (rename (GList u) "ID")) j) = true).
      { intros j Hc. cbn [rename]. rewrite core_list. cbn [id_container_deser]. cbn [ctype] in Hc.
        destruct j; try discriminate. cbn [is_null] in Hc.
        rewrite is_some_option_map, is_some_map_opt. rewrite forallb_forall in Hc |- *.
        intros x Hx. apply IHs. apply Hc. exact Hx. }
      split; [|exact Hcore].
      intros j Hc. cbn [rename]. rewrite spec_nullable_list. cbn [id_container_deser].
      destruct (is_null j) eqn:E; [reflexivity|]. rewrite is_some_option_map.
      specialize (Hcore j). cbn [rename] in Hcore. rewrite core_list in Hcore. apply Hcore.
      cbn [ctype] in Hc |- *. rewrite E in Hc |- *. exact Hc.
    - split; [|exact I]. cbn [wf_gtype] in Hwf.
      destruct u as [m|v|v]; [| |discriminate].
      + destruct (IH Hwf) as [_ IHc]. intros j Hc. cbn [rename spec_rust]. cbn [ctype] in Hc. apply IHc. exact Hc.
      + destruct (IH Hwf) as [_ IHc]. intros j Hc. cbn [rename spec_rust]. cbn [ctype] in Hc.
        specialize (IHc j). cbn [rename] in IHc. apply IHc. exact Hc.
  Qed.
End IdLeaves.

(* ---------- the certifying checker *)
Definition prim_names : list string := ["String"; "i64"; "i32"; "f64"; "bool"; "serde_json::Value"; "()"].
Definition is_prim (n : string) : bool := mem_str n prim_names.

Lemma prim_deser_none n j : is_prim n = false -> prim_deser n j = None.
Proof.
  unfold is_prim, prim_names, prim_deser. cbn [mem_str]. intros H.
  repeat match type of H with
         | (if String.eqb ?a ?b then true else _) = false => destruct (String.eqb a b); [discriminate|]
         end.
  reflexivity.
Qed.

Fixpoint rleaf (t : rtype) : string :=
  match t with RNamed n => n | ROption u | RVec u | RBox u | RMap u => rleaf u end.

Lemma map_opt_in {A B} (f : A -> option B) l ys a : map_opt f l = Some ys -> In a l -> exists y, f a = Some y /\ In y ys.
Proof.
  revert ys. induction l as [|x r IH]; intros ys H Hin; [destruct Hin|].
  cbn [map_opt] in H. destruct (f x) as [y|] eqn:Ex; [|discriminate].
  destruct (map_opt f r) as [ys'|] eqn:Er; [|discriminate]. inversion H; subst ys.
  destruct Hin as [->|Hin].
  - exists y. split; [exact Ex|left; reflexivity].
  - destruct (IH ys' eq_refl Hin) as [y' [H1 H2]]. exists y'. split; [exact H1|right; exact H2].
Qed.

Lemma in_list_max y ys : In y ys -> y <= list_max ys.
Proof.
  intros H. assert (Hf : Forall (fun k => k <= list_max ys) ys) by (apply list_max_le; lia).
  rewrite Forall_forall in Hf. exact (Hf y H).
Qed.

Lemma in_combine_exists {A B} (l : list A) (l' : list B) a : List.length l = List.length l' -> In a l -> exists b, In (a, b) (combine l l').
Proof.
  revert l'. induction l as [|x r IH]; intros [|y t] Hl Hin; try discriminate; [destruct Hin|].
  destruct Hin as [->|Hin]; [exists y; left; reflexivity|].
  destruct (IH t (f_equal pred Hl) Hin) as [b Hb]. exists b. right. exact Hb.
Qed.

Section Checker.
  Variables (s : aschema) (frags : list (string * (string * list sel))) (henv env : list ritem).

  Definition alias_to (n prim : string) : bool :=
    match find_item n env with Some (IAlias _ (RNamed p)) => String.eqb p prim | _ => false end.

  (* what the leaf type named ln must be for schema type tn; Some F0 = accepted from fuel F0 on *)
  Definition leaf_need (rec : string -> string -> list sel -> option nat) (tn ln : string) (sub : list sel) : option nat :=
    match find_kind_sdl s tn with
    | Some KScalar =>
        if String.eqb tn "Int" then (if String.eqb ln "Int" && alias_to "Int" "i64" then Some 2 else None)
        else if String.eqb tn "Float" then (if String.eqb ln "Float" && alias_to "Float" "f64" then Some 2 else None)
        else if String.eqb tn "Boolean" then (if String.eqb ln "Boolean" && alias_to "Boolean" "bool" then Some 2 else None)
        else if String.eqb tn "String" then (if String.eqb ln "String" then Some 1 else None)
        else if String.eqb tn "ID" then None
        else if negb (is_prim ln) && match find_item ln env with None | Some (IAliasPath _ _) => true | _ => false end
             then Some 1 else None
    | Some KEnum =>
        if negb (is_prim ln) && match find_item ln env with Some (IStrEnum _ _ _ _ _ _ true) => true | _ => false end
        then Some 1 else None
    | Some KObject => match sub with [] => None | _ => rec ln tn sub end
    | _ => None
    end.

  Definition pair_need (rec : string -> string -> list sel -> option nat) (t : string) (fd : rfield) (x : sel) : option nat :=
    match x with
    | SField a n sub =>
        if negb (String.eqb (field_wire fd) (response_key a n)) then None else
        match f_deser_with fd, field_def s t n with
        | Some h, Some fdf =>
            (* an ID field: one of the three helpers, on the type the generator derives for it *)
            let ty := fd_type fdf in
            if henv_ok henv && wf_gtype ty && String.eqb (gname ty) "ID" &&
               match find_kind_sdl s "ID" with Some KScalar => true | _ => false end &&
               match decorate "ID" (quals_sdl ty) with Some r => rtype_eqb r (f_ty fd) | None => false end &&
               (if String.eqb h "deserialize_id" then match ty with GNonNull (GNamed _) => true | _ => false end
                else if String.eqb h "deserialize_option_id" then match ty with GNamed _ => true | _ => false end
                else String.eqb h "deserialize_id_list")
            then Some 4 else None
        | None, Some fdf =>
            let ty := fd_type fdf in
            if negb (wf_gtype ty) then None else
            match leaf_need rec (gname ty) (rleaf (f_ty fd)) sub with
            | Some F0 =>
                match decorate (rleaf (f_ty fd)) (quals_sdl ty) with
                | Some r => if rtype_eqb r (f_ty fd) then Some (F0 + wraps ty + 1) else None
                | None => None
                end
            | None => None
            end
        | _, _ => None
        end
    | _ => None
    end.

  Definition not_typename (x : sel) : bool := negb (String.eqb (fst (snd (sel_entry x))) "__typename").

  (* Some B: the struct `name` implements the selection `sels` on object type t, and its
     deserializer needs fuel B *)
  Fixpoint plain_need (fuel : nat) (name t : string) (sels : list sel) {struct fuel} : option nat :=
    match fuel with
    | O => None
    | S f =>
        if negb (forallb is_field sels && nodup_str (map (fun x => fst (sel_entry x)) sels) && negb (is_prim name))
        then None else
        match find_kind_sdl s t, find_item name env with
        | Some KObject, Some (IStruct _ _ _ fields) =>
            if negb (forallb (fun fd => negb (f_flatten fd)) fields &&
                     nodup_str (map field_wire fields) && nodup_str (map f_ident fields) &&
                     Nat.eqb (List.length fields) (List.length (filter not_typename sels)))
            then None else
            match map_opt (fun p => pair_need (plain_need f) t (fst p) (snd p)) (combine fields (filter not_typename sels)) with
            | Some needs => Some (S (list_max needs))
            | None => None
            end
        | _, _ => None
        end
    end.
End Checker.

(* ---------- soundness of the checker: every conforming payload is accepted *)
Section Soundness.
  Variables (s : aschema) (frags : list (string * (string * list sel))) (henv env : list ritem).

  Definition Accepts (rec : string -> string -> list sel -> option nat) : Prop :=
    forall name t sels B, rec name t sels = Some B ->
    forall F, B <= F -> forall Fj m, cobj s frags Fj t sels m = true ->
    is_some (deser henv F env (RNamed name) (JObj m)) = true.

  Lemma alias_to_find n p : alias_to env n p = true -> exists n', find_item n env = Some (IAlias n' (RNamed p)).
  Proof.
    unfold alias_to. destruct (find_item n env) as [[| | | | | |n' [q| | | |]| |]|]; try discriminate.
    intros H. apply String.eqb_eq in H. subst q. exists n'. reflexivity.
  Qed.

  Lemma deser_alias F n n' u j : is_prim n = false -> find_item n env = Some (IAlias n' u) ->
    deser henv (S F) env (RNamed n) j = deser henv F env u j.
  Proof. intros Hp Hf. cbn [deser]. rewrite (prim_deser_none n j Hp), Hf. reflexivity. Qed.

  (* the leaf layer, given that the structs below are accepted *)
  Lemma leaf_accepts rec : Accepts rec ->
    forall tn ln sub F0, leaf_need s env rec tn ln sub = Some F0 ->
    forall fj F j, F0 <= F -> is_null j = false ->
      leaf_of s (cobj s frags fj) tn sub j = true -> is_some (deser henv F env (RNamed ln) j) = true.
  Proof.
    intros Hrec tn ln sub F0 Hn fj F j HF Hnn Hl.
    unfold leaf_need in Hn. unfold leaf_of in Hl.
    destruct (find_kind_sdl s tn) as [[| | | | |]|] eqn:Ek; try discriminate.
    - (* scalar *)
      destruct (String.eqb_spec tn "Int") as [->|N1].
      { destruct (String.eqb_spec ln "Int") as [->|]; [|discriminate]. cbn [andb] in Hn.
        destruct (alias_to env "Int" "i64") eqn:Ea; [|discriminate]. inversion Hn; subst F0.
        destruct (alias_to_find _ _ Ea) as [n' Hf].
        destruct F as [|[|F]]; try lia. rewrite (deser_alias _ "Int" n' _ j eq_refl Hf).
        cbn [deser]. unfold scalar_leaf in Hl. cbn in Hl. destruct j; try discriminate.
        cbn. assert (in_i64 z = true) as ->; [|reflexivity].
        unfold in_i32, in_i64, i32_min, i32_max, i64_min, i64_max in *. lia. }
      destruct (String.eqb_spec tn "Float") as [->|N2].
      { destruct (String.eqb_spec ln "Float") as [->|]; [|discriminate]. cbn [andb] in Hn.
        destruct (alias_to env "Float" "f64") eqn:Ea; [|discriminate]. inversion Hn; subst F0.
        destruct (alias_to_find _ _ Ea) as [n' Hf].
        destruct F as [|[|F]]; try lia. rewrite (deser_alias _ "Float" n' _ j eq_refl Hf).
        cbn [deser]. unfold scalar_leaf in Hl. cbn in Hl. destruct j; try discriminate; reflexivity. }
      destruct (String.eqb_spec tn "Boolean") as [->|N3].
      { destruct (String.eqb_spec ln "Boolean") as [->|]; [|discriminate]. cbn [andb] in Hn.
        destruct (alias_to env "Boolean" "bool") eqn:Ea; [|discriminate]. inversion Hn; subst F0.
        destruct (alias_to_find _ _ Ea) as [n' Hf].
        destruct F as [|[|F]]; try lia. rewrite (deser_alias _ "Boolean" n' _ j eq_refl Hf).
        cbn [deser]. unfold scalar_leaf in Hl. cbn in Hl. destruct j; try discriminate; reflexivity. }
      destruct (String.eqb_spec tn "String") as [->|N4].
      { destruct (String.eqb_spec ln "String") as [->|]; [|discriminate]. inversion Hn; subst F0.
        destruct F as [|F]; try lia. unfold scalar_leaf in Hl. cbn in Hl. destruct j; try discriminate; reflexivity. }
      destruct (String.eqb_spec tn "ID") as [->|N5]; [discriminate|].
      destruct (is_prim ln) eqn:Ep; [discriminate|]. cbn [negb andb] in Hn.
      destruct F as [|F]; [destruct (find_item ln env) as [[]|]; inversion Hn; subst; lia|].
      cbn [deser]. rewrite (prim_deser_none ln j Ep).
      destruct (find_item ln env) as [[]|]; try discriminate; reflexivity.
    - (* enum *)
      destruct (is_prim ln) eqn:Ep; [discriminate|]. cbn [negb andb] in Hn.
      destruct (find_item ln env) as [[| | | | |n' d vs sa so da [|]| | |]|] eqn:Ef; try discriminate.
      inversion Hn; subst F0. destruct F as [|F]; [lia|].
      cbn [deser]. rewrite (prim_deser_none ln j Ep), Ef.
      destruct j; try discriminate. unfold strenum_deser. destruct (assoc s0 da); reflexivity.
    - (* object *)
      destruct sub as [|x0 sub0]; [discriminate|].
      destruct j as [| | | | | |m']; try discriminate.
      assert (Hp : possible s tn = [tn]) by (unfold possible; rewrite Ek; reflexivity).
      rewrite Hp in Hl. cbn [existsb] in Hl. rewrite orb_false_r in Hl.
      exact (Hrec ln tn (x0 :: sub0) F0 Hn F HF fj m' Hl).
  Qed.

  Theorem plain_accepts : forall fuel, Accepts (plain_need s henv env fuel).
  Proof.
    induction fuel as [|f IH]; intros name t sels B H F HF Fj m Hc; [discriminate|].
    cbn [plain_need] in H.
    destruct (forallb is_field sels && nodup_str (map (fun x => fst (sel_entry x)) sels) && negb (is_prim name)) eqn:E1;
      [|discriminate]. cbn [negb] in H.
    apply andb_true_iff in E1. destruct E1 as [E1 Hprim]. apply andb_true_iff in E1. destruct E1 as [Hfld Hnd].
    apply negb_true_iff in Hprim. apply nodup_str_NoDup in Hnd.
    destruct (find_kind_sdl s t) as [[| | | | |]|] eqn:Ek; try discriminate.
    destruct (find_item name env) as [[nm d c fields| | | | | | | |]|] eqn:Ef; try discriminate.
    destruct (forallb (fun fd => negb (f_flatten fd)) fields && nodup_str (map field_wire fields) &&
              nodup_str (map f_ident fields) &&
              Nat.eqb (List.length fields) (List.length (filter not_typename sels))) eqn:E2; [|discriminate].
    cbn [negb] in H.
    apply andb_true_iff in E2. destruct E2 as [E2 Hlen]. apply andb_true_iff in E2. destruct E2 as [E2 Hi].
    apply andb_true_iff in E2. destruct E2 as [Hplain Hw].
    apply nodup_str_NoDup in Hw. apply nodup_str_NoDup in Hi. apply Nat.eqb_eq in Hlen.
    destruct (map_opt _ (combine fields (filter not_typename sels))) as [needs|] eqn:Em; [|discriminate].
    inversion H; subst B. clear H.
    destruct F as [|F]; [lia|].
    destruct Fj as [|fj]; [discriminate|]. cbn [cobj] in Hc.
    rewrite (collected_plain s frags t sels Hfld Hnd) in Hc.
    apply andb_true_iff in Hc. destruct Hc as [Hc Hall]. apply andb_true_iff in Hc. destruct Hc as [Hmnd _].
    apply nodup_str_NoDup in Hmnd.
    cbn [deser]. rewrite (prim_deser_none name (JObj m) Hprim), Ef.
    destruct (struct_accepts (deser henv F env) (deser henv F henv) env fields Hplain Hw Hi m Hmnd) as [vs [Hd _]];
      [|rewrite Hd; reflexivity].
    intros fd Hfd.
    destruct (in_combine_exists fields (filter not_typename sels) fd Hlen Hfd) as [x Hx].
    destruct (map_opt_in _ _ _ _ Em Hx) as [nd [Hpn Hnd']]. cbn [fst snd] in Hpn.
    assert (Hxs : In x sels /\ not_typename x = true).
    { apply in_combine_r in Hx. apply filter_In in Hx. exact Hx. }
    destruct Hxs as [Hxs Hnt].
    unfold pair_need in Hpn. destruct x as [a n sub| |]; try discriminate.
    destruct (String.eqb_spec (field_wire fd) (response_key a n)) as [Hwk|]; [|discriminate]. cbn [negb] in Hpn.
    (* what the payload has at this key *)
    rewrite forallb_forall in Hall.
    specialize (Hall (sel_entry (SField a n sub)) (in_map sel_entry _ _ Hxs)).
    cbn [sel_entry] in Hall. unfold field_ok in Hall.
    destruct (obj_get (response_key a n) m) as [v|] eqn:Eg; [|discriminate].
    unfold not_typename in Hnt. cbn [sel_entry fst snd] in Hnt. apply negb_true_iff in Hnt. rewrite Hnt in Hall.
    destruct (field_def s t n) as [fdf|] eqn:Efd; [|destruct (f_deser_with fd); discriminate].
    unfold member_ok. rewrite Hwk, Eg. unfold deser_field.
    destruct (f_deser_with fd) as [h|] eqn:Edw.
    { (* an ID field *)
      match type of Hpn with (if ?c then _ else _) = _ => destruct c eqn:Ec; [|discriminate] end.
      inversion Hpn; subst nd. clear Hpn.
      repeat (apply andb_true_iff in Ec; destruct Ec as [Ec ?]).
      match goal with H : String.eqb (gname _) "ID" = true |- _ => apply String.eqb_eq in H; rename H into Hid end.
      rewrite Hid in Hall.
      assert (Hleaf : forall j, leaf_of s (cobj s frags fj) "ID" sub j = true -> id_leaf j = true).
      { intros j. unfold leaf_of. destruct (find_kind_sdl s "ID") as [[| | | | |]|]; try discriminate.
        unfold scalar_leaf. cbn. destruct j; intros; assumption || discriminate. }
      pose proof (ctype_mono _ _ Hleaf _ _ _ Hall) as Hid_ok.
      assert (HF4 : 4 <= F) by (pose proof (in_list_max _ _ Hnd'); lia).
      destruct F as [|[|[|F]]]; try lia.
      match goal with H : henv_ok henv = true |- _ => rename H into Hh end.
      destruct (String.eqb h "deserialize_id") eqn:E1.
      - destruct (fd_type fdf) as [|?|[nm1|?|?]]; try discriminate.
        cbn [ctype] in Hid_ok. destruct (is_null v) eqn:En; [discriminate|].
        pose proof (int_or_string_accepts henv Hh (S F) v Hid_ok) as Hs.
        destruct (int_or_string _ v); [discriminate|discriminate Hs].
      - destruct (String.eqb h "deserialize_option_id") eqn:E2.
        + destruct (fd_type fdf) as [nm2|?|?]; try discriminate.
          cbn [ctype] in Hid_ok.
          assert (Hor : is_null v = true \/ id_leaf v = true) by (destruct (is_null v); [left; reflexivity|right; exact Hid_ok]).
          destruct (option_id_accepts henv Hh F v Hor) as [E|[[z E]|[x E]]]; rewrite E; discriminate.
        + match goal with H : String.eqb h "deserialize_id_list" = true |- _ => rewrite H end.
          match goal with H : match decorate "ID" _ with Some _ => _ | None => _ end = true |- _ => rename H into Hdec end.
          match goal with H : wf_gtype _ = true |- _ => rename H into Hwf end.
          rewrite (decorate_leaf _ "ID" Hwf) in Hdec. apply rtype_eqb_eq in Hdec. rewrite <- Hdec.
          pose proof (proj1 (id_container_both henv Hh (S F) _ Hwf) v Hid_ok) as Hs.
          destruct (id_container_deser _ _ v); [discriminate|discriminate Hs]. }
    destruct (wf_gtype (fd_type fdf)) eqn:Ewf; [|discriminate]. cbn [negb] in Hpn.
    destruct (leaf_need s env (plain_need s henv env f) (gname (fd_type fdf)) (rleaf (f_ty fd)) sub) as [F0|] eqn:El; [|discriminate].
    destruct (decorate (rleaf (f_ty fd)) (quals_sdl (fd_type fdf))) as [r|] eqn:Edec; [|discriminate].
    destruct (rtype_eqb r (f_ty fd)) eqn:Er; [|discriminate]. apply rtype_eqb_eq in Er. subst r.
    inversion Hpn; subst nd. clear Hpn.
    assert (Hs : is_some (deser henv F env (f_ty fd) v) = true).
    { apply (field_type_accepts_conforming henv env (rleaf (f_ty fd))
               (leaf_of s (cobj s frags fj) (gname (fd_type fdf)) sub) F0) with (t := fd_type fdf).
      - intros F1 j1 HF1 Hn1 Hl1. exact (leaf_accepts _ IH _ _ _ _ El fj F1 j1 HF1 Hn1 Hl1).
      - exact Ewf.
      - exact Edec.
      - pose proof (in_list_max _ _ Hnd'). lia.
      - exact Hall. }
    destruct (deser henv F env (f_ty fd) v); [discriminate|discriminate Hs].
  Qed.
End Soundness.

(* ---------- for a whole operation: if the checker certifies the root struct, every conforming
   `data` payload of every size is accepted *)
Definition certify (s : aschema) (henv env : list ritem) (doc : list qdef) (op : string) : option nat :=
  match find_op doc op with
  | Some (k, _, sels) =>
      match root_type s k with
      | Some root => plain_need s henv env (S (fold_right (fun y a => sel_size y + a) 0 sels)) "ResponseData" root sels
      | None => None
      end
  | None => None
  end.

Theorem certified_accepts_all s henv env doc op B :
  certify s henv env doc op = Some B ->
  forall F data, B <= F -> conforms s doc op data = true ->
  is_some (deser henv F env (RNamed "ResponseData") data) = true.
Proof.
  unfold certify, conforms. intros H F data HF Hc.
  destruct (find_op doc op) as [[[k vars] sels]|]; [|discriminate].
  destruct (root_type s k) as [root|]; [|discriminate].
  destruct data as [| | | | | |m]; try discriminate.
  exact (plain_accepts s (frag_defs doc) henv env _ "ResponseData" root sels B H F HF _ m Hc).
Qed.
