(* TermProofs.v — C17: the fuel-indexed walks of the model never run out of fuel, with the bound
   the model itself uses.  (The structural walks — resolve_sel, spreads, render — are accepted by
   Coq's guard checker as they stand; the two recursion tests are in RecProofs.v.) *)
From GC Require Import Base Rust TypeExpr Heck Strs Naming Enums Schema Query Attrs Dfs Codegen RecProofs.

(* ---------- validation.rs selection_set_contains_type_name (repaired): visited list threaded *)
Section Typename.
  Variable frs : list rfrag.
  Variable parent : string.
  Let nodes := map rf_name frs.
  Notation unv := (unvisited nodes).

  Lemma find_frag_in n fr : find_frag frs n = Some fr -> In n nodes.
  Proof.
    unfold find_frag. intros H. apply find_some in H. destruct H as [Hin He].
    apply String.eqb_eq in He. subst n. apply in_map. exact Hin.
  Qed.

  Lemma ct_incl fuel : forall visited l b v,
    contains_typename fuel frs parent visited l = Some (b, v) -> incl visited v.
  Proof.
    induction fuel as [|f IH]; intros visited l b v H; [discriminate|].
    cbn [contains_typename] in H. revert visited H.
    induction l as [|x r IHl]; intros visited H.
    - inversion H; subst. apply incl_refl.
    - destruct x as [a fd sub| |on sub|n].
      + exact (IHl _ H).
      + inversion H; subst. apply incl_refl.
      + exact (IHl _ H).
      + destruct (mem_str n visited); [exact (IHl _ H)|].
        destruct (find_frag frs n) as [fr|].
        * destruct (String.eqb (rf_on fr) parent).
          -- destruct (contains_typename f frs parent (n :: visited) (rf_sel fr)) as [[[|] v']|] eqn:E; try discriminate.
             ++ inversion H; subst. intros z Hz. apply (IH _ _ _ _ E). right. exact Hz.
             ++ intros z Hz. apply (IHl _ H). apply (IH _ _ _ _ E). right. exact Hz.
          -- intros z Hz. apply (IHl _ H). right. exact Hz.
        * intros z Hz. apply (IHl _ H). right. exact Hz.
  Qed.

  Theorem typename_search_terminates : forall fuel visited l,
    unv visited <= fuel -> contains_typename (S fuel) frs parent visited l <> None.
  Proof.
    induction fuel as [fuel IH] using lt_wf_ind. intros visited l Hf.
    cbn [contains_typename]. revert visited Hf.
    induction l as [|x r IHl]; intros visited Hf; [discriminate|].
    destruct x as [a fd sub| |on sub|n]; try (apply IHl; exact Hf); [discriminate|].
    destruct (mem_str n visited) eqn:Em; [apply IHl; exact Hf|].
    assert (Hnv : ~ In n visited) by (intros X; apply mem_str_In in X; congruence).
    destruct (find_frag frs n) as [fr|] eqn:Ef.
    - pose proof (find_frag_in _ _ Ef) as Hn.
      pose proof (unvisited_cons nodes visited n Hn Hnv) as Hlt.
      destruct (String.eqb (rf_on fr) parent).
      + destruct fuel as [|f']; [lia|].
        assert (Hrec : contains_typename (S f') frs parent (n :: visited) (rf_sel fr) <> None).
        { apply IH; lia. }
        destruct (contains_typename (S f') frs parent (n :: visited) (rf_sel fr)) as [[[|] v']|] eqn:E;
          [discriminate| |congruence].
        apply IHl. pose proof (ct_incl _ _ _ _ _ E) as Hi.
        pose proof (unvisited_mono nodes (n :: visited) v' Hi). lia.
      + apply IHl. lia.
    - apply IHl. pose proof (unvisited_mono nodes visited (n :: visited) (fun z Hz => or_intror Hz)). lia.
  Qed.

  Corollary has_typename_never_out_of_fuel l :
    contains_typename (S (List.length frs)) frs parent [] l <> None.
  Proof.
    apply typename_search_terminates.
    pose proof (unvisited_le_nodes nodes []). unfold nodes in *. rewrite map_length in H. exact H.
  Qed.
End Typename.

(* ---------- schema.rs used_input_ids_recursive: visited = the used-types set itself *)
Section UsedInputs.
  Variable s : aschema.
  Let nodes := map ai_name (a_inputs s).
  Notation unv := (unvisited nodes).

  Lemma fold_opt_incl {A} (f : list string -> A -> option (list string)) :
    (forall acc x r, f acc x = Some r -> incl acc r) ->
    forall l acc r, fold_opt f l acc = Some r -> incl acc r.
  Proof.
    intros Hf. induction l as [|x l IH]; intros acc r H; cbn [fold_opt] in H.
    - inversion H; subst. apply incl_refl.
    - destruct (f acc x) as [b|] eqn:E; [|discriminate].
      intros z Hz. apply (IH _ _ H). apply (Hf _ _ _ E). exact Hz.
  Qed.

  Lemma used_inputs_incl fuel : forall types cur r, used_inputs s fuel types cur = Some r -> incl types r.
  Proof.
    induction fuel as [|f IH]; intros types cur r H; [discriminate|].
    cbn [used_inputs] in H. destruct (find_input s cur) as [inp|]; [|inversion H; subst; apply incl_refl].
    revert H. apply fold_opt_incl. intros acc fld r0 Hr.
    destruct (find_kind_sdl s (gname (snd fld))) as [[| | | | |]|]; try (inversion Hr; subst; apply incl_refl);
      try (inversion Hr; subst; intros z Hz; right; exact Hz).
    destruct (mem_str (gname (snd fld)) acc); [inversion Hr; subst; apply incl_refl|].
    intros z Hz. apply (IH _ _ _ Hr). right. exact Hz.
  Qed.

  Theorem used_inputs_terminates : forall fuel types cur,
    unv types <= fuel -> used_inputs s (S fuel) types cur <> None.
  Proof.
    induction fuel as [fuel IH] using lt_wf_ind. intros types cur Hf.
    cbn [used_inputs]. destruct (find_input s cur) as [inp|]; [|discriminate].
    generalize (ai_fields inp). intros fs. revert types Hf.
    induction fs as [|fld r IHl]; intros types Hf; [discriminate|].
    cbn [fold_opt].
    destruct (find_kind_sdl s (gname (snd fld))) as [[| | | | |]|] eqn:Ek;
      try (apply IHl; exact Hf);
      try (apply IHl; pose proof (unvisited_mono nodes types (gname (snd fld) :: types) (fun z Hz => or_intror Hz)); lia).
    destruct (mem_str (gname (snd fld)) types) eqn:Em; [apply IHl; exact Hf|].
    assert (Hnv : ~ In (gname (snd fld)) types) by (intros X; apply mem_str_In in X; congruence).
    pose proof (unvisited_cons nodes types _ (kind_input_in s _ Ek) Hnv) as Hlt.
    destruct fuel as [|f']; [lia|].
    assert (Hrec : used_inputs s (S f') (gname (snd fld) :: types) (gname (snd fld)) <> None) by (apply IH; lia).
    destruct (used_inputs s (S f') (gname (snd fld) :: types) (gname (snd fld))) as [ts|] eqn:E; [|congruence].
    apply IHl. pose proof (used_inputs_incl _ _ _ _ E) as Hi.
    pose proof (unvisited_mono nodes _ _ Hi). lia.
  Qed.
End UsedInputs.

(* ---------- query/selection.rs collect_used_types: recursion through sub-selections AND through
   fragment spreads (guarded by the visited fragment set) *)
Lemma sel_depth_in x l : In x l -> sel_depth x <= sels_depth l.
Proof.
  induction l as [|y r IH]; intros H; [destruct H|]. cbn [sels_depth fold_right].
  destruct H as [->|H]; [lia|]. specialize (IH H). unfold sels_depth in IH. lia.
Qed.

Section Collect.
  Variables (s : aschema) (frs : list rfrag) (o : opts).
  Let nodes := map rf_name frs.
  Notation unv := (unvisited nodes).
  Let D := doc_depth frs.

  Lemma frag_depth fr : In fr frs -> sels_depth (rf_sel fr) <= D.
  Proof.
    unfold D, doc_depth. induction frs as [|y r IH]; intros H; [destruct H|]. cbn [fold_right].
    destruct H as [->|H]; [lia|]. specialize (IH H). lia.
  Qed.

  Lemma find_frag_In n fr : find_frag frs n = Some fr -> In fr frs /\ In n nodes.
  Proof.
    unfold find_frag. intros H. apply find_some in H. destruct H as [Hin He].
    apply String.eqb_eq in He. subst n. split; [exact Hin|apply in_map; exact Hin].
  Qed.

  Definition phi (u : used) (l : list rsel) : nat := unv (u_frags u) * (D + 2) + sels_depth l + 1.

  Lemma collect_mono fuel : forall u l u', collect frs fuel u l = Some u' -> incl (u_frags u) (u_frags u').
  Proof.
    induction fuel as [|f IH]; intros u l u' H; [discriminate|].
    cbn [collect] in H. revert u H. induction l as [|x r IHl]; intros u H; cbn [fold_opt] in H.
    - inversion H; subst. apply incl_refl.
    - destruct x as [a fd sub| |on sub|n].
      + destruct (collect frs f _ sub) as [u1|] eqn:E; [|discriminate].
        intros z Hz. apply (IHl _ H). exact (IH _ _ _ E z Hz).
      + exact (IHl _ H).
      + destruct (collect frs f _ sub) as [u1|] eqn:E; [|discriminate].
        intros z Hz. apply (IHl _ H). exact (IH _ _ _ E z Hz).
      + destruct (mem_str n (u_frags u)); [exact (IHl _ H)|].
        destruct (find_frag frs n) as [fr|].
        * destruct (collect frs f _ (rf_sel fr)) as [u1|] eqn:E; [|discriminate].
          intros z Hz. apply (IHl _ H). apply (IH _ _ _ E). right. exact Hz.
        * intros z Hz. apply (IHl _ H). right. exact Hz.
  Qed.

  Theorem collect_terminates : forall fuel u l, phi u l <= fuel -> collect frs fuel u l <> None.
  Proof.
    induction fuel as [fuel IH] using lt_wf_ind. intros u l Hf.
    destruct fuel as [|f]; [unfold phi in Hf; lia|].
    cbn [collect].
    assert (G : forall r u0, unv (u_frags u0) <= unv (u_frags u) -> (forall x, In x r -> sel_depth x <= sels_depth l) ->
              fold_opt (fun u1 x =>
                 match x with
                 | RField _ fd sub => collect frs f (mkUsed (gname (fd_type fd) :: u_types u1) (u_frags u1)) sub
                 | RTypename => Some u1
                 | RInline on sub => collect frs f (mkUsed (on :: u_types u1) (u_frags u1)) sub
                 | RSpread n =>
                     if mem_str n (u_frags u1) then Some u1
                     else match find_frag frs n with
                          | Some fr => collect frs f (mkUsed (u_types u1) (n :: u_frags u1)) (rf_sel fr)
                          | None => Some (mkUsed (u_types u1) (n :: u_frags u1))
                          end
                 end) r u0 <> None).
    { induction r as [|x r IHr]; intros u0 Hu Hd; cbn [fold_opt]; [discriminate|].
      assert (Hx : sel_depth x <= sels_depth l) by (apply Hd; left; reflexivity).
      assert (Hr : forall y, In y r -> sel_depth y <= sels_depth l) by (intros y Hy; apply Hd; right; exact Hy).
      unfold phi in Hf.
      destruct x as [a fd sub| |on sub|n].
      - assert (Hrec : collect frs f (mkUsed (gname (fd_type fd) :: u_types u0) (u_frags u0)) sub <> None).
        { apply IH; [lia|]. unfold phi; cbn [u_frags]. cbn [sel_depth] in Hx. fold (sels_depth sub) in Hx.
          assert (unv (u_frags u0) * (D + 2) <= unv (u_frags u) * (D + 2)) by (apply Nat.mul_le_mono_r; exact Hu). lia. }
        destruct (collect frs f _ sub) as [u1|] eqn:E; [|congruence].
        apply IHr; [|exact Hr]. pose proof (collect_mono _ _ _ _ E) as Hi. cbn [u_frags] in Hi.
        pose proof (unvisited_mono nodes _ _ Hi). lia.
      - apply IHr; assumption.
      - assert (Hrec : collect frs f (mkUsed (on :: u_types u0) (u_frags u0)) sub <> None).
        { apply IH; [lia|]. unfold phi; cbn [u_frags]. cbn [sel_depth] in Hx. fold (sels_depth sub) in Hx.
          assert (unv (u_frags u0) * (D + 2) <= unv (u_frags u) * (D + 2)) by (apply Nat.mul_le_mono_r; exact Hu). lia. }
        destruct (collect frs f _ sub) as [u1|] eqn:E; [|congruence].
        apply IHr; [|exact Hr]. pose proof (collect_mono _ _ _ _ E) as Hi. cbn [u_frags] in Hi.
        pose proof (unvisited_mono nodes _ _ Hi). lia.
      - destruct (mem_str n (u_frags u0)) eqn:Em; [apply IHr; assumption|].
        assert (Hnv : ~ In n (u_frags u0)) by (intros X; apply mem_str_In in X; congruence).
        destruct (find_frag frs n) as [fr|] eqn:Ef.
        + destruct (find_frag_In _ _ Ef) as [Hfr Hn].
          pose proof (unvisited_cons nodes (u_frags u0) n Hn Hnv) as Hlt.
          pose proof (frag_depth fr Hfr) as Hdp.
          assert (Hrec : collect frs f (mkUsed (u_types u0) (n :: u_frags u0)) (rf_sel fr) <> None).
          { apply IH; [lia|]. unfold phi; cbn [u_frags].
            assert (unv (n :: u_frags u0) + 1 <= unv (u_frags u)) by lia.
            assert ((unv (n :: u_frags u0) + 1) * (D + 2) <= unv (u_frags u) * (D + 2)) by (apply Nat.mul_le_mono_r; assumption).
            lia. }
          destruct (collect frs f _ (rf_sel fr)) as [u1|] eqn:E; [|congruence].
          apply IHr; [|exact Hr]. pose proof (collect_mono _ _ _ _ E) as Hi. cbn [u_frags] in Hi.
          pose proof (unvisited_mono nodes _ _ Hi). lia.
        + apply IHr; [|exact Hr]. cbn [u_frags].
          pose proof (unvisited_mono nodes (u_frags u0) (n :: u_frags u0) (fun z Hz => or_intror Hz)). lia. }
    apply G; [lia|]. intros x Hx. apply sel_depth_in. exact Hx.
  Qed.

  Corollary collect_never_out_of_fuel sels :
    collect frs (collect_fuel frs sels) (mkUsed [] []) sels <> None.
  Proof.
    apply collect_terminates. unfold phi, collect_fuel. cbn [u_frags].
    pose proof (unvisited_le_nodes nodes []) as Hu. unfold nodes in Hu. rewrite map_length in Hu.
    fold D. set (L := List.length frs) in *. set (d := sels_depth sels).
    assert (unvisited nodes [] * (D + 2) <= L * (D + 2)) by (apply Nat.mul_le_mono_r; exact Hu).
    assert (L * (D + 2) <= L * S (S (Nat.max d D))) by (apply Nat.mul_le_mono_l; lia).
    cbn [Nat.mul]. lia.
  Qed.
End Collect.

(* ---------- codegen/selection.rs calculate_selection: structural descent into sub-selections *)
Lemma fold_opt_total {A B} (f : B -> A -> option B) l :
  (forall b x, In x l -> f b x <> None) -> forall b, fold_opt f l b <> None.
Proof.
  induction l as [|x r IH]; intros H b; cbn [fold_opt]; [discriminate|].
  destruct (f b x) as [b'|] eqn:E; [|exfalso; exact (H b x (or_introl eq_refl) E)].
  apply IH. intros b0 y Hy. apply H. right. exact Hy.
Qed.

Section CalcTerm.
  Variables (s : aschema) (frs : list rfrag) (o : opts).

  (* the body never fails if the recursive call never fails on the sub-selections it is given *)
  Lemma calc_fields_total (rec recf : ctx -> list rsel -> nat -> string -> string -> option ctx) sels :
    (forall x sub, In x sels -> ((exists a fd, x = RField a fd sub) \/ (exists on, x = RInline on sub)) ->
                   forall c sid t p, rec c sub sid t p <> None /\ recf c sub sid t p <> None) ->
    forall c sid tname prefix, calc_fields s frs o rec recf c sels sid tname prefix <> None.
  Proof.
    intros Hrec c0 sid tname prefix. unfold calc_fields. apply fold_opt_total. intros b x Hx.
    destruct x as [a fd sub| |on sub|n]; try discriminate.
    - destruct (find_kind_sdl s (gname (fd_type fd))) as [[| | | | |]|]; try discriminate;
        (destruct (push_type _ _) as [c2 nid]; apply (Hrec (RField a fd sub) sub Hx); left; eauto).
    - destruct (on_object s tname); [|discriminate]. apply (Hrec (RInline on sub) sub Hx). right. eauto.
    - destruct (String.eqb _ tname || on_object s tname); discriminate.
  Qed.

  Lemma calc_body_total (rec recf : ctx -> list rsel -> nat -> string -> string -> option ctx) sels :
    (forall x sub, In x sels -> ((exists a fd, x = RField a fd sub) \/ (exists on, x = RInline on sub)) ->
                   forall c sid t p, rec c sub sid t p <> None /\ recf c sub sid t p <> None) ->
    forall c sid tname prefix, calc_body s frs o rec recf c sels sid tname prefix <> None.
  Proof.
    intros Hrec c sid tname prefix.
    assert (Hv : forall c0, calc_variants s frs o rec c0 sels sid tname prefix <> None).
    { intros c0. unfold calc_variants.
      destruct (match find_kind_sdl s tname with
                | Some KInterface => Some (implementors s tname)
                | Some KUnion => find_union s tname
                | _ => None end) as [vs|]; [|discriminate].
      match goal with |- match fold_opt ?f vs c0 with _ => _ end <> None =>
        assert (G : fold_opt f vs c0 <> None) end.
      { apply fold_opt_total. intros b v _.
        set (mine := filter _ sels).
        assert (Hm : forall x, In x mine -> In x sels) by (intros x Hx; unfold mine in Hx; apply filter_In in Hx; exact (proj1 Hx)).
        destruct mine as [|m0 mr] eqn:Em; [discriminate|].
        destruct (push_type _ _) as [c2 nid].
        assert (Hf : forall l cc, (forall x, In x l -> In x sels) ->
                   fold_opt (fun c1 x => match x with
                             | RInline on sub => rec c1 sub nid v (prefix ++ "On" ++ camel on)%string
                             | RSpread n => Some (push_field c1 nid (render_field o None (kw (snake n)) n [QRequired] true None (recursive frs n)))
                             | _ => Some c1 end) l cc <> None).
        { intros l cc Hl. apply fold_opt_total. intros b0 x Hx.
          destruct x as [a fd sub| |on sub|n]; try discriminate.
          apply (Hrec (RInline on sub) sub (Hl _ Hx)). right. eauto. }
        destruct m0 as [a fd sub| |on sub|n]; try (apply Hf; exact Hm).
        destruct mr as [|m1 mr']; [discriminate|apply Hf; exact Hm]. }
      destruct (fold_opt _ vs c0); [discriminate|congruence]. }
    assert (Hfl : forall c0, calc_fields s frs o rec recf c0 sels sid tname prefix <> None).
    { intros c0. apply calc_fields_total. exact Hrec. }
    unfold calc_body.
    destruct sels as [|x0 r0]; [|destruct x0; destruct r0]; try discriminate;
      (destruct (calc_variants s frs o rec c _ sid tname prefix) as [c1|] eqn:E; [apply Hfl|exfalso; exact (Hv c E)]).
  Qed.

  Lemma calc_both_terminate : forall fuel c sels sid tname prefix,
    sels_depth sels < fuel ->
    calc s frs o fuel c sels sid tname prefix <> None /\ calcf s frs o fuel c sels sid tname prefix <> None.
  Proof.
    induction fuel as [|f IH]; intros c sels sid tname prefix Hd; [lia|].
    assert (Hsub : forall x sub, In x sels -> ((exists a fd, x = RField a fd sub) \/ (exists on, x = RInline on sub)) ->
                   forall c0 sid0 t p, calc s frs o f c0 sub sid0 t p <> None /\ calcf s frs o f c0 sub sid0 t p <> None).
    { intros x sub Hx Hs c0 sid0 t p. apply IH.
      pose proof (sel_depth_in x sels Hx) as H1.
      destruct Hs as [[a [fd ->]]|[on ->]]; cbn [sel_depth] in H1; fold (sels_depth sub) in H1; lia. }
    split; cbn [calc calcf]; [apply calc_body_total|apply calc_fields_total]; exact Hsub.
  Qed.

  Theorem calc_terminates : forall fuel c sels sid tname prefix,
    sels_depth sels < fuel -> calc s frs o fuel c sels sid tname prefix <> None.
  Proof. intros fuel c sels sid tname prefix Hd. exact (proj1 (calc_both_terminate fuel c sels sid tname prefix Hd)). Qed.

  Corollary calc_never_out_of_fuel c sels sid tname prefix :
    calc s frs o (calc_fuel sels) c sels sid tname prefix <> None.
  Proof. apply calc_terminates. unfold calc_fuel. lia. Qed.
End CalcTerm.

(* ---------- putting it together: the model of one operation's items never runs out of fuel *)
Section Total.
  Variables (s : aschema) (frs : list rfrag) (o : opts).

  Lemma expand_root_total n sels t p : expand_root s frs o n sels t p <> None.
  Proof.
    unfold expand_root. destruct (push_type ctx0 n) as [c sid].
    pose proof (calc_never_out_of_fuel s frs o c sels sid t p) as H.
    destruct (calc s frs o (calc_fuel sels) c sels sid t p); [discriminate|congruence].
  Qed.

  Lemma all_used_total op : all_used s frs op <> None.
  Proof.
    unfold all_used.
    pose proof (collect_never_out_of_fuel frs (ro_sel op)) as Hc.
    destruct (collect frs (collect_fuel frs (ro_sel op)) (mkUsed [] []) (ro_sel op)) as [u|]; [|congruence].
    match goal with |- option_map _ ?x <> None => assert (G : x <> None) end.
    { apply fold_opt_total. intros types v _.
      destruct (find_kind_sdl s (gname (vd_type v))) as [[| | | | |]|]; try discriminate.
      apply used_inputs_terminates.
      pose proof (unvisited_le_nodes (map ai_name (a_inputs s)) (gname (vd_type v) :: types)) as H.
      rewrite map_length in H. lia. }
    destruct (fold_opt _ (ro_vars op) (u_types u)); [discriminate|congruence].
  Qed.

  Lemma fragment_items_total u : fragment_items s frs o u <> None.
  Proof.
    unfold fragment_items. apply fold_opt_total. intros acc fr _.
    destruct (mem_str (rf_name fr) (u_frags u)); [|discriminate].
    pose proof (expand_root_total (rf_name fr) (rf_sel fr) (rf_on fr) (camel (rf_name fr))) as H.
    destruct (expand_root s frs o _ _ _ _); [discriminate|congruence].
  Qed.

  Theorem operation_items_total op : operation_items s frs o op <> None.
  Proof.
    unfold operation_items. pose proof (all_used_total op) as Hu.
    destruct (all_used s frs op) as [u|]; [|congruence].
    pose proof (fragment_items_total u) as Hf.
    pose proof (expand_root_total "ResponseData" (ro_sel op) (ro_root op) (camel (ro_name op))) as He.
    destruct (fragment_items s frs o u); [|congruence].
    destruct (expand_root s frs o _ _ _ _); [discriminate|congruence].
  Qed.
End Total.

(* the model of the whole generator yields a result, an error, or a panic WITH A MESSAGE that the
   code itself raises — never the model's own out-of-fuel marker *)
Theorem module_of_never_out_of_fuel s q o text n : module_of s q o text n <> Panic "model out of fuel".
Proof.
  unfold module_of. destruct (select_operation o (rq_ops q) (norm o n)) as [op|]; [|discriminate].
  pose proof (operation_items_total s (rq_frags q) o op) as H.
  destruct (operation_items s (rq_frags q) o op); [|congruence].
  destruct (match all_used s (rq_frags q) op with Some u => double_required s u | None => false end); discriminate.
Qed.

(* ---------- the defect that was repaired: the ORIGINAL __typename search had no visited list.
   Its faithful model runs out of ANY amount of fuel on `fragment A on Named { ...A }`. *)
Fixpoint contains_typename_prefix (fuel : nat) (frs : list rfrag) (parent : string) (l : list rsel) {struct fuel} : option bool :=
  match fuel with
  | O => None
  | S f =>
      (fix walk (l : list rsel) : option bool :=
         match l with
         | [] => Some false
         | RTypename :: _ => Some true
         | RSpread n :: r =>
             match find_frag frs n with
             | Some fr =>
                 if String.eqb (rf_on fr) parent then
                   match contains_typename_prefix f frs parent (rf_sel fr) with
                   | None => None
                   | Some true => Some true
                   | Some false => walk r
                   end
                 else walk r
             | None => walk r
             end
         | _ :: r => walk r
         end) l
  end.

Theorem typename_search_prefix_refuted : forall fuel,
  contains_typename_prefix fuel [mkRFrag "A" "Named" [RSpread "A"]] "Named" [RSpread "A"] = None.
Proof. induction fuel as [|f IH]; [reflexivity|]. cbn. rewrite IH. reflexivity. Qed.
