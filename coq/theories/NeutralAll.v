(* NeutralAll.v — C09 for ALL programs: the options that only concern Rust (extra derives of
   responses and of variables, module visibility, the serde path, the custom-scalars module, the
   query-file path) change nothing that serde looks at.

   1. `items_neutral`: the items the generator model emits for an operation, with the derive
      lists, `serde(crate = ..)` and alias paths erased, do not depend on those options
      (whole generator: used types, selection expansion, fragments, inputs, variables, enums).
   2. `deser_erased` / `ser_erased`: Serde.deser / Serde.ser — the specification of what the
      derived impls accept and write — never look at the erased parts.
   Together (`wire_neutral`): for any two option sets that agree on everything else, every JSON
   is accepted / rejected alike and yields the same value, and every value serialises alike.
   Normalization and extern enums rename or remove items: they are outside this theorem
   (proved for wire names in NeutralProofs.v, evaluated per case in RunC09). *)
From GC Require Import Base Rust Json TypeExpr Heck Strs Naming Enums Schema Query Attrs Dfs Codegen Serde.

Definition wire_opts (o : opts) : opts :=
  mkOpts (o_cli o) (o_operation_name o) (o_struct_name o) None None (o_deprecation o) (o_norm_rust o)
         None (o_extern_enums o) (o_other_variant o) (o_skip_none o) None None None.

Definition erase_item (i : ritem) : ritem :=
  match i with
  | IStruct n _ _ f => IStruct n [] None f
  | IUnit n _ _ => IUnit n [] None
  | ITagEnum n _ _ t v => ITagEnum n [] None t v
  | IExtEnum n _ _ v => IExtEnum n [] None v
  | IUntagged n _ v => IUntagged n [] v
  | IStrEnum n _ vs sa so da dd => IStrEnum n [] vs sa so da dd
  | IAlias n t => IAlias n t
  | IAliasPath n _ => IAliasPath n []
  | IOpaque n => IOpaque n
  end.
Definition erase (l : list ritem) : list ritem := map erase_item l.

(* ---------- 1. the generator *)
Lemma map_flat_map {A B C} (g : B -> C) (f : A -> list B) l :
  map g (flat_map f l) = flat_map (fun x => map g (f x)) l.
Proof. induction l as [|x r IH]; [reflexivity|]. cbn [flat_map]. rewrite map_app, IH. reflexivity. Qed.

Lemma flat_map_ext' {A B} (f g : A -> list B) l : (forall x, f x = g x) -> flat_map f l = flat_map g l.
Proof. intros H. induction l as [|x r IH]; [reflexivity|]. cbn [flat_map]. rewrite H, IH. reflexivity. Qed.

Lemma erase_app a b : erase (a ++ b) = erase a ++ erase b.
Proof. apply map_app. Qed.

Lemma render_ctx_neutral o c : erase (render_ctx o c) = erase (render_ctx (wire_opts o) c).
Proof.
  unfold erase, render_ctx. rewrite !map_flat_map. apply flat_map_ext'. intros [idx name].
  destruct (find _ _) as [[? [fn boxed]]|]; [reflexivity|].
  destruct (flat_map _ (rev (c_fields c))); destruct (flat_map _ (rev (c_variants c))); reflexivity.
Qed.

Lemma calc_neutral s frs o fuel c sels sid tname prefix :
  calc s frs o fuel c sels sid tname prefix = calc s frs (wire_opts o) fuel c sels sid tname prefix.
Proof. destruct o as [a1 a2 a3 a4 a5 a6 a7 a8 a9 a10 a11 a12 a13 a14]. reflexivity. Qed.

Lemma expand_root_neutral s frs o root sels tname prefix :
  option_map erase (expand_root s frs o root sels tname prefix) =
  option_map erase (expand_root s frs (wire_opts o) root sels tname prefix).
Proof.
  unfold expand_root. destruct (push_type ctx0 root) as [c sid]. rewrite <- calc_neutral.
  destruct (calc s frs o _ c sels sid tname prefix) as [c'|]; [|reflexivity].
  cbn [option_map]. f_equal. apply render_ctx_neutral.
Qed.

Lemma fragment_items_neutral s frs o u :
  option_map erase (fragment_items s frs o u) = option_map erase (fragment_items s frs (wire_opts o) u).
Proof.
  unfold fragment_items.
  assert (G : forall l acc acc', erase acc = erase acc' ->
     option_map erase (fold_opt (fun acc fr =>
        if mem_str (rf_name fr) (u_frags u)
        then option_map (fun its => acc ++ its) (expand_root s frs o (rf_name fr) (rf_sel fr) (rf_on fr) (camel (rf_name fr)))
        else Some acc) l acc) =
     option_map erase (fold_opt (fun acc fr =>
        if mem_str (rf_name fr) (u_frags u)
        then option_map (fun its => acc ++ its) (expand_root s frs (wire_opts o) (rf_name fr) (rf_sel fr) (rf_on fr) (camel (rf_name fr)))
        else Some acc) l acc')).
  { induction l as [|fr r IH]; intros acc acc' Hacc; cbn [fold_opt].
    - cbn [option_map]. f_equal. exact Hacc.
    - destruct (mem_str (rf_name fr) (u_frags u)); [|exact (IH _ _ Hacc)].
      assert (E := expand_root_neutral s frs o (rf_name fr) (rf_sel fr) (rf_on fr) (camel (rf_name fr))).
      destruct (expand_root s frs o _ _ _ _) as [a|], (expand_root s frs (wire_opts o) _ _ _ _) as [b|];
        cbn [option_map] in *; try discriminate; [|reflexivity].
      apply IH. unfold erase in *. rewrite !map_app. inversion E. rewrite Hacc. congruence. }
  apply G. reflexivity.
Qed.

Lemma scalar_items_neutral s o u : erase (scalar_items s o u) = erase (scalar_items s (wire_opts o) u).
Proof.
  unfold erase, scalar_items. rewrite !map_flat_map. apply flat_map_ext'. intros n.
  destruct (_ && _); reflexivity.
Qed.

Lemma enum_items_neutral s o u : erase (enum_items s o u) = erase (enum_items s (wire_opts o) u).
Proof.
  unfold erase, enum_items. rewrite !map_flat_map. apply flat_map_ext'. intros e.
  destruct o as [a1 a2 a3 a4 a5 a6 a7 a8 a9 a10 a11 a12 a13 a14]. cbn [wire_opts o_extern_enums o_norm_rust]. destruct (_ && _); reflexivity.
Qed.

Lemma input_items_neutral s o u : erase (input_items s o u) = erase (input_items s (wire_opts o) u).
Proof.
  unfold erase, input_items. rewrite !map_flat_map. apply flat_map_ext'. intros inp.
  destruct (_ && _); [|reflexivity]. destruct o as [a1 a2 a3 a4 a5 a6 a7 a8 a9 a10 a11 a12 a13 a14]. unfold input_item. cbn [map]. destruct (ai_one_of inp); reflexivity.
Qed.

Lemma variables_item_neutral o op : erase_item (variables_item o op) = erase_item (variables_item (wire_opts o) op).
Proof. destruct o as [a1 a2 a3 a4 a5 a6 a7 a8 a9 a10 a11 a12 a13 a14]. unfold variables_item. destruct (ro_vars op); reflexivity. Qed.

Theorem items_neutral s frs o op :
  option_map erase (operation_items s frs o op) = option_map erase (operation_items s frs (wire_opts o) op).
Proof.
  unfold operation_items. destruct (all_used s frs op) as [u|]; [|reflexivity].
  assert (F := fragment_items_neutral s frs o u).
  assert (R := expand_root_neutral s frs o "ResponseData" (ro_sel op) (ro_root op) (camel (ro_name op))).
  destruct (fragment_items s frs o u) as [f1|], (fragment_items s frs (wire_opts o) u) as [f2|];
    cbn [option_map] in F; try discriminate; [|reflexivity].
  destruct (expand_root s frs o _ _ _ _) as [r1|], (expand_root s frs (wire_opts o) _ _ _ _) as [r2|];
    cbn [option_map] in R; try discriminate; [|reflexivity].
  cbn [option_map]. f_equal. inversion F as [F']. inversion R as [R'].
  rewrite !erase_app. rewrite (scalar_items_neutral s o u), (enum_items_neutral s o u), (input_items_neutral s o u).
  change (erase [variables_item o op]) with [erase_item (variables_item o op)].
  change (erase [variables_item (wire_opts o) op]) with [erase_item (variables_item (wire_opts o) op)].
  rewrite F', R', (variables_item_neutral o op). reflexivity.
Qed.

(* ---------- 2. serde never looks at derive lists, the crate path or alias paths *)
Lemma item_name_erase i : item_name (erase_item i) = item_name i.
Proof. destruct i; reflexivity. Qed.

Lemma find_item_erase n env : find_item n (erase env) = option_map erase_item (find_item n env).
Proof.
  induction env as [|i r IH]; [reflexivity|]. cbn [erase map find_item]. rewrite item_name_erase.
  destruct (String.eqb (item_name i) n); [reflexivity|exact IH].
Qed.

Lemma map_opt_ext {A B} (f g : A -> option B) l : (forall x, f x = g x) -> map_opt f l = map_opt g l.
Proof. intros H. induction l as [|x r IH]; [reflexivity|]. cbn [map_opt]. rewrite H, IH. reflexivity. Qed.

Section Ext.
  Variables (D1 D2 Dh : rtype -> json -> option rvalue) (env : list ritem).
  Hypothesis HD : forall t j, D1 t j = D2 t j.

  Lemma deser_field_ext fd v : deser_field D1 Dh fd v = deser_field D2 Dh fd v.
  Proof. unfold deser_field. destruct (f_deser_with fd); [reflexivity|apply HD]. Qed.

  Lemma claim_ext own : forall m seen rest,
    claim (deser_field D1 Dh) own m seen rest = claim (deser_field D2 Dh) own m seen rest.
  Proof.
    induction m as [|[k v] r IH]; intros seen rest; [reflexivity|]. cbn [claim].
    destruct (find_field k own) as [f|]; [|apply IH].
    destruct (assoc (f_ident f) seen); [reflexivity|]. rewrite deser_field_ext.
    destruct (deser_field D2 Dh f v); [apply IH|reflexivity].
  Qed.

  Lemma serve_ext seen : forall fs buf, serve D1 (erase env) seen fs buf = serve D2 env seen fs buf.
  Proof.
    induction fs as [|fd more IH]; intros buf; [reflexivity|]. cbn [serve].
    destruct (f_flatten fd).
    - destruct (strip_box (f_ty fd)); try reflexivity.
      rewrite find_item_erase. destruct (find_item n env) as [[nm d c tf|nm d c|nm d c t v|nm d c v|nm d v|nm d vs sa so da dd|nm t|nm p|nm]|];
        cbn [option_map erase_item]; try reflexivity.
      + destruct (existsb f_flatten tf); rewrite !HD, !IH; reflexivity.
      + rewrite !HD, !IH. reflexivity.
      + rewrite !HD, !IH. reflexivity.
    - rewrite IH. reflexivity.
  Qed.

  Lemma deser_struct_ext fields m :
    deser_struct D1 Dh (erase env) fields m = deser_struct D2 Dh env fields m.
  Proof.
    unfold deser_struct. rewrite claim_ext. destruct (claim _ _ m [] []) as [[seen rest]|]; [|reflexivity].
    rewrite serve_ext. reflexivity.
  Qed.

  Lemma positional_ext : forall fs js, deser_positional D1 Dh fs js = deser_positional D2 Dh fs js.
  Proof.
    induction fs as [|fd r IH]; intros [|x xr]; try reflexivity. cbn [deser_positional].
    rewrite deser_field_ext, IH. reflexivity.
  Qed.

  Lemma tagged_ext tag variants m : deser_tagged D1 tag variants m = deser_tagged D2 tag variants m.
  Proof.
    unfold deser_tagged. destruct (filter _ m) as [|[k [| | | |s| |]] [|? ?]]; try reflexivity.
    destruct (match find _ variants with Some v => Some v | None => find v_other variants end) as [v|]; [|reflexivity].
    destruct (v_payload v); [rewrite HD|]; reflexivity.
  Qed.

  Lemma untagged_ext : forall vs j, deser_untagged D1 vs j = deser_untagged D2 vs j.
  Proof.
    induction vs as [|v r IH]; intros j; [reflexivity|]. cbn [deser_untagged].
    destruct (v_payload v); [rewrite HD|]; rewrite IH; reflexivity.
  Qed.

  Lemma map_ext u m : deser_map D1 u m = deser_map D2 u m.
  Proof.
    unfold deser_map. f_equal. generalize (Some (@nil (string * rvalue))).
    induction m as [|e r IH]; intros acc; [reflexivity|]. cbn [fold_left]. rewrite HD. apply IH.
  Qed.
End Ext.

Theorem deser_erased henv : forall fuel env t j,
  deser henv fuel (erase env) t j = deser henv fuel env t j.
Proof.
  induction fuel as [|f IH]; intros env t j; [reflexivity|]. cbn [deser].
  destruct t as [n|u|u|u|u].
  - destruct (prim_deser n j); [reflexivity|]. rewrite find_item_erase.
    destruct (find_item n env) as [[nm d c tf|nm d c|nm d c tg v|nm d c v|nm d v|nm d vs sa so da dd|nm t|nm p|nm]|];
      cbn [option_map erase_item]; try reflexivity.
    + destruct j; try reflexivity.
      * destruct (existsb f_flatten tf); [reflexivity|]. rewrite (positional_ext _ _ _ (IH env)). reflexivity.
      * apply deser_struct_ext. apply IH.
    + destruct j; try reflexivity. apply tagged_ext. apply IH.
    + destruct j as [| | | |s|l|[|[k v'] [|? ?]]]; try reflexivity;
        destruct (find _ v) as [x|]; try reflexivity. destruct (v_payload x); [rewrite IH|]; reflexivity.
    + apply untagged_ext. apply IH.
    + apply IH.
  - rewrite IH. reflexivity.
  - destruct j; try reflexivity. rewrite (map_opt_ext _ _ _ (IH env u)). reflexivity.
  - apply IH.
  - destruct j; try reflexivity. apply map_ext. apply IH.
Qed.

Lemma ser_fields_ext (S1 S2 : rtype -> rvalue -> option json) vals :
  (forall t v, S1 t v = S2 t v) -> forall fs, ser_fields S1 vals fs = ser_fields S2 vals fs.
Proof.
  intros H. induction fs as [|fd more IH]; [reflexivity|]. cbn [ser_fields].
  destruct (assoc (f_ident fd) vals) as [x|]; [|reflexivity].
  rewrite H, IH. reflexivity.
Qed.

Theorem ser_erased : forall fuel env t v, ser fuel (erase env) t v = ser fuel env t v.
Proof.
  induction fuel as [|f IH]; intros env t v; [reflexivity|]. cbn [ser].
  destruct t as [n|u|u|u|u].
  - destruct (prim_ser n v); [reflexivity|]. rewrite find_item_erase.
    destruct (find_item n env) as [[nm d c tf|nm d c|nm d c tg vs|nm d c vs|nm d vs|nm d vs sa so da dd|nm t|nm p|nm]|];
      cbn [option_map erase_item]; try reflexivity.
    + destruct v; try reflexivity. rewrite (ser_fields_ext _ _ _ (IH env)). reflexivity.
    + destruct v as [| | | | | | | |i p| | |]; try reflexivity. destruct (find _ vs) as [x|]; [|reflexivity].
      destruct (v_payload x), p; try reflexivity. rewrite IH. reflexivity.
    + destruct v as [| | | | | | | |i p| | |]; try reflexivity. destruct (find _ vs) as [x|]; [|reflexivity].
      destruct (v_payload x), p; try reflexivity. rewrite IH. reflexivity.
    + destruct v as [| | | | | | | |i p| | |]; try reflexivity. destruct (find _ vs) as [x|]; [|reflexivity].
      destruct (v_payload x), p; try reflexivity. apply IH.
    + apply IH.
  - destruct v; try reflexivity. apply IH.
  - destruct v; try reflexivity. rewrite (map_opt_ext _ _ _ (IH env u)). reflexivity.
  - apply IH.
  - destruct v; try reflexivity. f_equal. apply map_opt_ext. intros e. rewrite IH. reflexivity.
Qed.

(* ---------- 3. together *)
Definition rust_side_equal (o1 o2 : opts) : Prop := wire_opts o1 = wire_opts o2.

Theorem wire_neutral henv s frs o1 o2 op :
  rust_side_equal o1 o2 ->
  match operation_items s frs o1 op, operation_items s frs o2 op with
  | Some i1, Some i2 =>
      (forall fuel t j, deser henv fuel i1 t j = deser henv fuel i2 t j) /\
      (forall fuel t v, ser fuel i1 t v = ser fuel i2 t v)
  | None, None => True
  | _, _ => False
  end.
Proof.
  intros H. assert (E1 := items_neutral s frs o1 op). assert (E2 := items_neutral s frs o2 op).
  unfold rust_side_equal in H. rewrite H in E1. rewrite <- E2 in E1. clear E2.
  destruct (operation_items s frs o1 op) as [i1|], (operation_items s frs o2 op) as [i2|];
    cbn [option_map] in E1; try discriminate; [|exact I].
  inversion E1 as [E]. split.
  - intros fuel t j. rewrite <- (deser_erased henv fuel i1), <- (deser_erased henv fuel i2), E. reflexivity.
  - intros fuel t v. rewrite <- (ser_erased fuel i1), <- (ser_erased fuel i2), E. reflexivity.
Qed.

(* non-vacuity: two option sets that differ in all six Rust-side options are related *)
Example rust_side_example :
  rust_side_equal
    (mkOpts true None None (Some "Debug,Clone") (Some "PartialEq") None false (Some "crate::scalars") [] false false
            (Some "my::serde") (Some VPub) (Some "q.graphql"))
    (mkOpts true None None None None None false None [] false false None None None).
Proof. reflexivity. Qed.

(* ---------- 4. the whole run of the generator: same outcome class, same modules up to the
   Rust-side parts (visibility, `use` lines, include path, derive lists, crate path, alias paths);
   in particular the same OPERATION_NAME, QUERY, module and struct names and build_query wiring *)
Definition erase_module (m : rmodule) : rmodule :=
  mkModule (option_map (fun p => (fst p, VInherited)) (m_struct_decl m)) (m_name m) VInherited
           (m_operation_name m) (m_query m) None [] (erase (m_items m)) (m_impl_for m) (m_impl_body m).

Definition result_map {A B} (f : A -> B) (r : result A) : result B :=
  match r with Ok a => Ok (f a) | Err m => Err m | Panic m => Panic m end.

Lemma module_of_neutral s q o text name :
  result_map erase_module (module_of s q o text name) =
  result_map erase_module (module_of s q (wire_opts o) text name).
Proof.
  unfold module_of.
  replace (select_operation (wire_opts o) (rq_ops q) (norm (wire_opts o) name))
    with (select_operation o (rq_ops q) (norm o name))
    by (destruct o as [a1 a2 a3 a4 a5 a6 a7 a8 a9 a10 a11 a12 a13 a14]; reflexivity).
  destruct (select_operation o (rq_ops q) (norm o name)) as [op|]; [|reflexivity].
  assert (E := items_neutral s (rq_frags q) o op).
  destruct (operation_items s (rq_frags q) o op) as [i1|],
           (operation_items s (rq_frags q) (wire_opts o) op) as [i2|]; cbn [option_map] in E; try discriminate; [|reflexivity].
  inversion E as [E'].
  destruct (match all_used s (rq_frags q) op with Some u => double_required s u | None => false end); [reflexivity|].
  cbn [result_map]. f_equal. unfold erase_module. cbn [m_struct_decl m_name m_vis m_operation_name m_query m_items m_impl_for m_impl_body].
  rewrite E'. destruct o as [a1 a2 a3 a4 a5 a6 a7 a8 a9 a10 a11 a12 a13 a14]. cbn [wire_opts o_cli]. destruct a1; reflexivity.
Qed.

Lemma map_result_neutral {A} (f g : A -> result rmodule) l :
  (forall x, result_map erase_module (f x) = result_map erase_module (g x)) ->
  result_map (map erase_module) (map_result f l) = result_map (map erase_module) (map_result g l).
Proof.
  intros H. induction l as [|x r IH]; [reflexivity|]. cbn [map_result]. unfold bind.
  specialize (H x). destruct (f x) as [a|m|m], (g x) as [b|m'|m']; cbn [result_map] in H; try discriminate;
    try (injection H as ->; reflexivity).
  assert (Hab : erase_module a = erase_module b) by congruence.
  destruct (map_result f r) as [ys|m|m], (map_result g r) as [zs|m'|m']; cbn [result_map] in IH; try discriminate;
    try (injection IH as ->; reflexivity).
  assert (IH' : map erase_module ys = map erase_module zs) by congruence.
  cbn [result_map map]. rewrite Hab, IH'. reflexivity.
Qed.

Theorem generate_neutral s doc o text :
  result_map (map erase_module) (generate s doc o text) =
  result_map (map erase_module) (generate s doc (wire_opts o) text).
Proof.
  unfold generate, bind. destruct (resolve s doc) as [q|m|m]; try reflexivity.
  replace (match o_operation_name (wire_opts o) with
           | Some n => option_map (fun op => [op]) (select_operation (wire_opts o) (rq_ops q) n)
           | None => None end)
    with (match o_operation_name o with
          | Some n => option_map (fun op => [op]) (select_operation o (rq_ops q) n)
          | None => None end)
    by (destruct o as [a1 a2 a3 a4 a5 a6 a7 a8 a9 a10 a11 a12 a13 a14]; reflexivity).
  replace (o_cli (wire_opts o)) with (o_cli o) by (destruct o; reflexivity).
  destruct (match o_operation_name o with Some n => _ | None => None end) as [ops|].
  - apply map_result_neutral. intros op. apply module_of_neutral.
  - destruct (o_cli o); [|reflexivity]. apply map_result_neutral. intros op. apply module_of_neutral.
Qed.

Corollary generate_rust_side s doc o1 o2 text : rust_side_equal o1 o2 ->
  result_map (map erase_module) (generate s doc o1 text) =
  result_map (map erase_module) (generate s doc o2 text).
Proof. intros H. rewrite (generate_neutral s doc o1), (generate_neutral s doc o2), H. reflexivity. Qed.
