(* IdAll.v — C16 for ALL programs: in the expansion of any selection, a rendered field carries one of the
   ID helpers exactly when the leaf of its Rust type is `ID` (wherever ID appears: any list / non-null nesting,
   plain, in fragments, in variants), and no other field does. *)
From GC Require Import Base Rust Json TypeExpr Heck Strs Naming NamingProofs Enums Schema Query Attrs Dfs Codegen StrategyAll InvariantAll.

Fixpoint rleaf (t : rtype) : string :=
  match t with
  | RNamed n => n
  | ROption u | RVec u | RBox u | RMap u => rleaf u
  end.

Lemma dec_loop_leaf : forall qs acc nn t nn', dec_loop qs acc nn = Some (t, nn') -> rleaf t = rleaf acc.
Proof.
  induction qs as [|q r IH]; intros acc nn t nn' H; cbn [dec_loop] in H.
  - inversion H. reflexivity.
  - destruct q, nn; try discriminate; rewrite (IH _ _ _ _ H); reflexivity.
Qed.

Lemma decorate_leaf_name n qs t : decorate n qs = Some t -> rleaf t = n.
Proof.
  unfold decorate. destruct (dec_loop (rev qs) (RNamed n) false) as [[t0 nn]|] eqn:E; [|discriminate].
  intros H. inversion H. assert (L := dec_loop_leaf _ _ _ _ _ E). destruct nn; cbn [rleaf]; exact L.
Qed.

Definition id_rule (x : option rfield) : Prop :=
  match x with
  | Some f =>
      (rleaf (f_ty f) = "ID" -> f_deser_with f <> None) /\
      (f_deser_with f <> None -> rleaf (f_ty f) = "ID" \/ rleaf (f_ty f) = "<double required>")
  | None => True
  end.

Lemma render_field_id_rule o a b ft quals fl d bx : id_rule (render_field o a b ft quals fl d bx).
Proof.
  unfold id_rule. destruct (render_field o a b ft quals fl d bx) as [f|] eqn:E; [|exact I].
  unfold render_field in E.
  set (ty0 := match decorate ft quals with Some t => t | None => RNamed "<double required>" end) in *.
  assert (Lty : rleaf (if bx then RBox ty0 else ty0) = rleaf ty0) by (destruct bx; reflexivity).
  assert (L0 : rleaf ty0 = ft \/ rleaf ty0 = "<double required>").
  { unfold ty0. destruct (decorate ft quals) as [t|] eqn:Ed; [left; exact (decorate_leaf_name _ _ _ Ed)|right; reflexivity]. }
  assert (Hf : f_ty f = (if bx then RBox ty0 else ty0) /\
               f_deser_with f = fst (if String.eqb ft "ID"
                                     then if existsb (qual_eqb QList) quals && negb (match quals with QRequired :: _ => true | _ => false end)
                                          then (Some "deserialize_id_list", true)
                                          else if existsb (qual_eqb QList) quals then (Some "deserialize_id_list", false)
                                          else if existsb (qual_eqb QRequired) quals then (Some "deserialize_id", false)
                                          else (Some "deserialize_option_id", true)
                                     else (None, false))).
  { destruct d as [[m|]|]; destruct (strategy o); inversion E; split; reflexivity. }
  destruct Hf as [Hty Hd]. rewrite Hty, Lty, Hd. clear E Hty Hd.
  destruct (String.eqb_spec ft "ID") as [->|Hne].
  - split; [intros _|intros _].
    + destruct (_ && _); [discriminate|]. destruct (existsb (qual_eqb QList) quals); [discriminate|].
      destruct (existsb (qual_eqb QRequired) quals); discriminate.
    + destruct L0 as [L|L]; [left; exact L|right; exact L].
  - split; [intros H|intros H; exfalso; apply H; reflexivity].
    destruct L0 as [L|L]; [congruence|]. rewrite L in H. discriminate.
Qed.

Theorem id_helper_exactly_on_id_fields s frs o fuel c sels sid t p c' :
  fields_all id_rule c -> calc s frs o fuel c sels sid t p = Some c' -> fields_all id_rule c'.
Proof.
  rewrite calcG_is_calc.
  exact (proj1 (calcG_inv s frs o (render_field o) (o_other_variant o) id_rule
                          (fun a x c0 d e f h => render_field_id_rule o a (kw x) c0 d e f h) fuel) c sels sid t p c').
Qed.

(* ---- the helper attached fits the field's type, for every nesting *)
From GC Require Import Serde RunSerde RunC16.

Definition unbox (t : rtype) : rtype := match t with RBox u => u | _ => t end.

Lemma dec_loop_container : forall qs acc nn t nn', dec_loop qs acc nn = Some (t, nn') ->
  id_container acc = true -> id_container t = true.
Proof.
  induction qs as [|q r IH]; intros acc nn t nn' H Hc; cbn [dec_loop] in H.
  - inversion H. subst. exact Hc.
  - destruct q, nn; try discriminate; apply (IH _ _ _ _ H); cbn [id_container]; exact Hc.
Qed.

Lemma dec_loop_nolist : forall qs acc nn t nn', existsb (qual_eqb QList) qs = false ->
  dec_loop qs acc nn = Some (t, nn') -> t = acc /\ nn' = (nn || existsb (qual_eqb QRequired) qs)%bool.
Proof.
  induction qs as [|q r IH]; intros acc nn t nn' Hn H; cbn [dec_loop existsb] in *.
  - inversion H. subst. rewrite Bool.orb_false_r. split; reflexivity.
  - destruct q; cbn in Hn; try discriminate Hn. destruct nn; [discriminate H|].
    destruct (IH _ _ _ _ Hn H) as [-> ->]. split; reflexivity.
Qed.

Lemma existsb_rev {A} (p : A -> bool) l : existsb p (rev l) = existsb p l.
Proof.
  destruct (existsb p l) eqn:E.
  - apply existsb_exists in E. destruct E as [x [Hi Hp]]. apply existsb_exists. exists x. split; [apply -> in_rev; exact Hi|exact Hp].
  - destruct (existsb p (rev l)) eqn:E2; [|reflexivity].
    apply existsb_exists in E2. destruct E2 as [x [Hi Hp]]. apply in_rev in Hi.
    assert (existsb p l = true) by (apply existsb_exists; exists x; split; assumption). congruence.
Qed.

Definition picked_helper (quals : list qual) : string :=
  if existsb (qual_eqb QList) quals then "deserialize_id_list"
  else if existsb (qual_eqb QRequired) quals then "deserialize_id" else "deserialize_option_id".

Lemma picked_helper_fits quals t : decorate "ID" quals = Some t -> helper_fits (picked_helper quals) t = true.
Proof.
  unfold decorate, picked_helper. destruct (dec_loop (rev quals) (RNamed "ID") false) as [[t0 nn]|] eqn:E; [|discriminate].
  intros H. inversion H. subst t. clear H.
  destruct (existsb (qual_eqb QList) quals) eqn:El.
  - cbn. assert (C := dec_loop_container _ _ _ _ _ E eq_refl). destruct nn; cbn [id_container]; exact C.
  - rewrite <- (existsb_rev _ quals) in El. destruct (dec_loop_nolist _ _ _ _ _ El E) as [-> ->].
    rewrite existsb_rev. cbn [orb]. destruct (existsb (qual_eqb QRequired) quals); reflexivity.
Qed.

Lemma dec_loop_unbox : forall qs acc nn t nn', dec_loop qs acc nn = Some (t, nn') -> unbox acc = acc -> unbox t = t.
Proof.
  induction qs as [|q r IH]; intros acc nn t nn' H Hc; cbn [dec_loop] in H.
  - inversion H. subst. exact Hc.
  - destruct q, nn; try discriminate H; apply (IH _ _ _ _ H); try reflexivity; exact Hc.
Qed.
Lemma decorate_unbox n qs t : decorate n qs = Some t -> unbox t = t.
Proof.
  unfold decorate. destruct (dec_loop (rev qs) (RNamed n) false) as [[t0 nn]|] eqn:E; [|discriminate].
  intros H. inversion H. assert (L := dec_loop_unbox _ _ _ _ _ E eq_refl). destruct nn; [exact L|reflexivity].
Qed.

Definition id_fit (x : option rfield) : Prop :=
  match x with
  | Some f => forall h, f_deser_with f = Some h ->
                helper_fits h (unbox (f_ty f)) = true \/ unbox (f_ty f) = RNamed "<double required>"
  | None => True
  end.

Lemma render_field_id_fit o a b ft quals fl d bx : id_fit (render_field o a b ft quals fl d bx).
Proof.
  unfold id_fit. destruct (render_field o a b ft quals fl d bx) as [f|] eqn:E; [|exact I].
  unfold render_field in E.
  set (ty0 := match decorate ft quals with Some t => t | None => RNamed "<double required>" end) in *.
  assert (Hf : f_ty f = (if bx then RBox ty0 else ty0) /\
               f_deser_with f = (if String.eqb ft "ID" then Some (picked_helper quals) else None)).
  { unfold picked_helper.
    destruct d as [[m|]|]; destruct (strategy o); inversion E; (split; [reflexivity|]); cbn [f_deser_with];
      destruct (String.eqb ft "ID"); try reflexivity;
      destruct (existsb (qual_eqb QList) quals); cbn [andb];
      try (destruct (negb _)); try reflexivity; destruct (existsb (qual_eqb QRequired) quals); reflexivity. }
  destruct Hf as [Hty Hd]. intros h Hh. rewrite Hd in Hh.
  destruct (String.eqb_spec ft "ID") as [->|Hne]; [|discriminate]. inversion Hh. subst h.
  assert (Hu : unbox (f_ty f) = ty0).
  { rewrite Hty. destruct bx; [reflexivity|]. unfold ty0. destruct (decorate "ID" quals) as [t|] eqn:Ed; [|reflexivity].
    exact (decorate_unbox _ _ _ Ed). }
  rewrite Hu. unfold ty0. destruct (decorate "ID" quals) as [t|] eqn:Ed; [left; exact (picked_helper_fits _ _ Ed)|right; reflexivity].
Qed.

Theorem id_helper_fits_everywhere s frs o fuel c sels sid t p c' :
  fields_all id_fit c -> calc s frs o fuel c sels sid t p = Some c' -> fields_all id_fit c'.
Proof.
  rewrite calcG_is_calc.
  exact (proj1 (calcG_inv s frs o (render_field o) (o_other_variant o) id_fit
                          (fun a x c0 d e f h => render_field_id_fit o a (kw x) c0 d e f h) fuel) c sels sid t p c').
Qed.

(* ---- from the root of an operation or fragment: the premise holds for the context the generator starts from *)
Lemma fields_all_root P root : fields_all P (fst (push_type ctx0 root)).
Proof. unfold fields_all. cbn. constructor. Qed.

Theorem id_fields_of_any_root s frs o root sels tname prefix c' :
  calc s frs o (calc_fuel sels) (fst (push_type ctx0 root)) sels (snd (push_type ctx0 root)) tname prefix = Some c' ->
  fields_all id_rule c' /\ fields_all id_fit c'.
Proof.
  intros H. split.
  - exact (id_helper_exactly_on_id_fields _ _ _ _ _ _ _ _ _ _ (fields_all_root _ root) H).
  - exact (id_helper_fits_everywhere _ _ _ _ _ _ _ _ _ _ (fields_all_root _ root) H).
Qed.

(* ---- serde(default) sits exactly on the Option-typed ID fields: an absent nullable ID is None, an absent
   non-null ID is an error, wherever the field is *)
Definition is_opt (t : rtype) : bool := match t with ROption _ => true | _ => false end.
Definition first_req (quals : list qual) : bool := match quals with QRequired :: _ => true | _ => false end.

Lemma dec_loop_app : forall l1 l2 acc nn,
  dec_loop (l1 ++ l2) acc nn = match dec_loop l1 acc nn with Some (t, n1) => dec_loop l2 t n1 | None => None end.
Proof.
  induction l1 as [|q r IH]; intros l2 acc nn; cbn [app dec_loop]; [reflexivity|].
  destruct q, nn; try reflexivity; apply IH.
Qed.

Lemma dec_loop_not_opt : forall qs acc nn t nn', dec_loop qs acc nn = Some (t, nn') -> is_opt acc = false -> is_opt t = false.
Proof.
  induction qs as [|q r IH]; intros acc nn t nn' H Hc; cbn [dec_loop] in H.
  - inversion H. subst. exact Hc.
  - destruct q, nn; try discriminate H; apply (IH _ _ _ _ H); try reflexivity; exact Hc.
Qed.

Lemma decorate_top_option n quals t : decorate n quals = Some t -> is_opt t = negb (first_req quals).
Proof.
  unfold decorate. destruct quals as [|q qs].
  - cbn. intros H. inversion H. reflexivity.
  - cbn [rev]. rewrite dec_loop_app.
    destruct (dec_loop (rev qs) (RNamed n) false) as [[t1 n1]|] eqn:E; [|discriminate].
    assert (N := dec_loop_not_opt _ _ _ _ _ E eq_refl).
    destruct q; cbn [dec_loop first_req negb].
    + destruct n1; [discriminate|]. intros H. inversion H. subst. exact N.
    + destruct n1; intros H; inversion H; reflexivity.
Qed.

Definition id_default (x : option rfield) : Prop :=
  match x with
  | Some f => unbox (f_ty f) = RNamed "<double required>" \/
              ((f_default f = true -> is_opt (unbox (f_ty f)) = true) /\
               (f_deser_with f <> None -> is_opt (unbox (f_ty f)) = true -> f_default f = true))
  | None => True
  end.

Lemma render_field_id_default o a b ft quals fl d bx : id_default (render_field o a b ft quals fl d bx).
Proof.
  unfold id_default. destruct (render_field o a b ft quals fl d bx) as [f|] eqn:E; [|exact I].
  unfold render_field in E.
  set (ty0 := match decorate ft quals with Some t => t | None => RNamed "<double required>" end) in *.
  fold (first_req quals) in E.
  set (hd := if String.eqb ft "ID" then
              if existsb (qual_eqb QList) quals && negb (first_req quals) then (Some "deserialize_id_list", true)
              else if existsb (qual_eqb QList) quals then (Some "deserialize_id_list", false)
              else if existsb (qual_eqb QRequired) quals then (Some "deserialize_id", false)
              else (Some "deserialize_option_id", true)
            else (@None string, false)) in *.
  assert (Hf : f_ty f = (if bx then RBox ty0 else ty0) /\ f_deser_with f = fst hd /\ f_default f = snd hd).
  { destruct d as [[m|]|]; destruct (strategy o); inversion E; repeat split; reflexivity. }
  destruct Hf as [Hty [Hw Hd]]. clear E.
  destruct (decorate ft quals) as [t|] eqn:Ed.
  2:{ left. rewrite Hty. destruct bx; reflexivity. }
  right. assert (Hu : unbox (f_ty f) = t).
  { rewrite Hty. destruct bx; [reflexivity|]. exact (decorate_unbox _ _ _ Ed). }
  rewrite Hu, Hw, Hd, (decorate_top_option _ _ _ Ed). clear Hu Hw Hd Hty. unfold hd. clear hd.
  destruct (String.eqb ft "ID"); [|split; [discriminate|intros H; exfalso; apply H; reflexivity]].
  destruct (existsb (qual_eqb QList) quals) eqn:El; cbn [andb].
  - destruct (first_req quals); cbn [negb fst snd]; split; intros; congruence.
  - destruct quals as [|[] qs]; cbn [existsb qual_eqb orb first_req negb fst snd] in *; try discriminate El; split; intros; congruence.
Qed.

Theorem id_default_exactly_on_option_fields s frs o fuel c sels sid t p c' :
  fields_all id_default c -> calc s frs o fuel c sels sid t p = Some c' -> fields_all id_default c'.
Proof.
  rewrite calcG_is_calc.
  exact (proj1 (calcG_inv s frs o (render_field o) (o_other_variant o) id_default
                          (fun a x c0 d e f h => render_field_id_default o a (kw x) c0 d e f h) fuel) c sels sid t p c').
Qed.
