(* VarCert.v — C04, composition by certificate: a checker `vars_ok` inspects the items of a module
   against the operation's variables and the schema's input types; for any items it accepts, EVERY
   value of the generated `Variables` type that serialises at all (and holds no catch-all enum
   variant and no null custom scalar) serialises to a valid `variables` object in the sense of
   VarSpec: declared keys, input-object keys from the schema, @oneOf with exactly one non-null
   member, enum values from the schema, null only at nullable positions, to any depth. *)
From GC Require Import Base Rust Json TypeExpr TypeExprProofs Heck Naming Enums Schema Query Attrs Codegen
  Serde SerdeLemmas Conform RespProofs Compose Exact VarSpec VarProofs.

(* values the theorem speaks about: no `Other(..)` enum variant (known class K11), no JSON null held
   by a consumer-supplied scalar *)
Fixpoint clean (v : rvalue) : bool :=
  match v with
  | VSome x => clean x
  | VSeq l => forallb clean l
  | VStruct fs => forallb (fun e => clean (snd e)) fs
  | VVariant i p => negb (String.eqb i "Other") && match p with Some x => clean x | None => true end
  | VMap m => forallb (fun e => clean (snd e)) m
  | VJson j => negb (is_null j)
  | VFloat j => match j with JInt _ | JFrac _ => true | _ => false end     (* an f64 holds a number *)
  | _ => true
  end.

Lemma map_opt_forall2 {A B} (f : A -> option B) l ys : map_opt f l = Some ys -> Forall2 (fun x y => f x = Some y) l ys.
Proof.
  revert ys. induction l as [|x r IH]; intros ys H; cbn [map_opt] in H.
  - inversion H. constructor.
  - destruct (f x) as [y|] eqn:Ex; [|discriminate]. destruct (map_opt f r) as [ys'|]; [|discriminate].
    inversion H; subst. constructor; [exact Ex|exact (IH ys' eq_refl)].
Qed.

Lemma ctype_weaken leaf t j : ctype leaf false t j = true -> ctype leaf true t j = true.
Proof.
  destruct t as [n|u|u]; cbn [ctype]; try (intros H; exact H).
  - destruct (is_null j); [discriminate|intros H; exact H].
  - destruct (is_null j); [discriminate|intros H; exact H].
Qed.

Lemma forall2_in_r {A B} (R : A -> B -> Prop) l js : Forall2 R l js -> forall y, In y js -> exists x, In x l /\ R x y.
Proof.
  induction 1 as [|x y l' js' Hxy Hrest IH]; intros z Hz; [destruct Hz|].
  destruct Hz as [<-|Hz]; [exists x; split; [left; reflexivity|exact Hxy]|].
  destruct (IH z Hz) as [x0 [H1 H2]]. exists x0. split; [right; exact H1|exact H2].
Qed.

(* ---------- type expressions, serialising direction *)
Section SerType.
  Variables (env : list ritem) (ln : string) (leaf : json -> bool).
  Variable Q : json -> Prop.
  Hypothesis HQ : forall l x, Q (JArr l) -> In x l -> Q x.
  Hypothesis Hleaf : forall F v j, Q j -> clean v = true -> ser F env (RNamed ln) v = Some j ->
                                   leaf j = true /\ is_null j = false.

  Lemma ser_both t : wf_gtype t = true ->
    (forall F v j, Q j -> clean v = true -> ser F env (spec_rust (rename t ln)) v = Some j -> ctype leaf true t j = true) /\
    (match t with GNonNull _ => True | _ =>
       forall F v j, Q j -> clean v = true -> ser F env (core (rename t ln)) v = Some j ->
                     ctype leaf false t j = true /\ is_null j = false end).
  Proof.
    induction t as [m|u IH|u IH]; intros Hwf.
    - split.
      + intros F v j Qj Hc H. destruct F as [|F]; [discriminate|]. cbn [rename spec_rust core ser] in H. cbn [ctype].
        destruct v; try discriminate.
        * inversion H; subst. reflexivity.
        * cbn [clean] in Hc. destruct (Hleaf F v j Qj Hc H) as [Hl Hn]. rewrite Hn. exact Hl.
      + intros F v j Qj Hc H. cbn [rename core] in H. cbn [ctype].
        destruct (Hleaf F v j Qj Hc H) as [Hl Hn]. rewrite Hn. split; [exact Hl|reflexivity].
    - cbn [wf_gtype] in Hwf. destruct (IH Hwf) as [IHs _].
      assert (Hcore : forall F v j, Q j -> clean v = true -> ser F env (core (rename (GList u) ln)) v = Some j ->
                ctype leaf false (GList u) j = true /\ is_null j = false).
      { intros F v j Qj Hc H. cbn [rename] in H. rewrite core_list in H. destruct F as [|F]; [discriminate|].
        cbn [ser] in H. destruct v; try discriminate. cbn [clean] in Hc.
        destruct (map_opt (ser F env (spec_rust (rename u ln))) l) as [js|] eqn:Em; [|discriminate].
        inversion H; subst j. cbn [ctype is_null]. split; [|reflexivity].
        apply map_opt_forall2 in Em. rewrite forallb_forall in Hc. apply forallb_forall. intros z Hz.
        destruct (forall2_in_r _ _ _ Em z Hz) as [x [Hx Hxz]].
        exact (IHs F x z (HQ js z Qj Hz) (Hc x Hx) Hxz). }
      split; [|exact Hcore].
      intros F v j Qj Hc H. cbn [rename] in H. rewrite spec_nullable_list in H. destruct F as [|F]; [discriminate|].
      cbn [ser] in H. destruct v; try discriminate.
      + inversion H; subst. reflexivity.
      + cbn [clean] in Hc. specialize (Hcore F v j Qj Hc). cbn [rename] in Hcore. rewrite core_list in Hcore.
        destruct (Hcore H) as [Hcj _]. apply ctype_weaken. exact Hcj.
    - split; [|exact I]. cbn [wf_gtype] in Hwf.
      destruct u as [m|v0|v0]; [| |discriminate].
      + destruct (IH Hwf) as [_ IHc]. intros F v j Qj Hc H. cbn [rename spec_rust] in H. cbn [ctype].
        exact (proj1 (IHc F v j Qj Hc H)).
      + destruct (IH Hwf) as [_ IHc]. intros F v j Qj Hc H. cbn [rename spec_rust] in H. cbn [ctype].
        specialize (IHc F v j Qj Hc). cbn [rename] in IHc. exact (proj1 (IHc H)).
  Qed.
End SerType.

Lemma jdepth_pos j : 1 <= jdepth j.
Proof. destruct j; cbn; lia. Qed.

Lemma fold_max_in {A} (f : A -> nat) l x : In x l -> f x <= fold_right (fun e acc => Nat.max (f e) acc) 0 l.
Proof. induction l as [|y r IH]; intros H; [destruct H|]. cbn. destruct H as [->|H]; [lia|specialize (IH H); lia]. Qed.

Lemma jdepth_member m k v : In (k, v) m -> S (jdepth v) <= jdepth (JObj m).
Proof. intros H. cbn [jdepth]. pose proof (fold_max_in (fun e : string * json => jdepth (snd e)) m (k, v) H). cbn [snd] in H0. lia. Qed.

Lemma jdepth_elem l x : In x l -> S (jdepth x) <= jdepth (JArr l).
Proof. intros H. cbn [jdepth]. pose proof (fold_max_in jdepth l x H). lia. Qed.

Lemma prim_ser_none n v : is_prim n = false -> n <> "&str" -> prim_ser n v = None.
Proof.
  unfold is_prim, prim_names, prim_ser. cbn [mem_str]. intros H Hs.
  repeat match type of H with
         | (if String.eqb ?a ?b then true else _) = false => destruct (String.eqb a b) eqn:?; [discriminate|]
         end.
  destruct (String.eqb_spec n "&str"); [contradiction|]. cbn [orb]. reflexivity.
Qed.

Lemma ser_strip_box env : forall r F x j, ser F env r x = Some j -> exists F', ser F' env (strip_box r) x = Some j.
Proof.
  induction r as [n|u IH|u IH|u IH|u IH]; intros F x j H; try (exists F; exact H).
  destruct F as [|F]; [discriminate|]. cbn [ser] in H. cbn [strip_box]. exact (IH F x j H).
Qed.

Lemma nodup_map_filter {A} (f : A -> string) (p : A -> bool) l : NoDup (map f l) -> NoDup (map f (filter p l)).
Proof.
  induction l as [|x r IH]; intros H; [constructor|]. cbn [map] in H. inversion H as [|? ? Hx Hr]; subst. cbn [filter].
  destruct (p x); [|exact (IH Hr)]. cbn [map]. constructor; [|exact (IH Hr)].
  intros X. apply Hx. apply in_map_iff in X. destruct X as [y [E Hy]]. apply filter_In in Hy.
  apply in_map_iff. exists y. split; [exact E|exact (proj1 Hy)].
Qed.

(* ---------- the checker *)
Section Cert.
  Variables (s : aschema) (env : list ritem).

  Definition tmap := list (string * string).     (* Rust type name |-> GraphQL type name *)

  Definition member_ok (tm : tmap) (r : rtype) (ty : gtype) : bool :=
    wf_gtype ty && rtype_eqb (strip_box r) (spec_rust (rename ty (rleaf r))) &&
    opt_eqb String.eqb (assoc (rleaf r) tm) (Some (gname ty)).

  (* the member of an @oneOf input: never Option at the top *)
  Definition member_ok_core (tm : tmap) (r : rtype) (ty : gtype) : bool :=
    wf_gtype ty && top_nullable ty && rtype_eqb (strip_box r) (core (rename ty (rleaf r))) &&
    opt_eqb String.eqb (assoc (rleaf r) tm) (Some (gname ty)).

  Definition alias_ok (n prim : string) : bool :=
    match find_item n env with Some (IAlias _ (RNamed p)) => String.eqb p prim | _ => false end.

  Definition type_ok (tm : tmap) (ln tn : string) : bool :=
    match find_kind_sdl s tn with
    | Some KScalar =>
        if String.eqb tn "Int" then String.eqb ln "Int" && alias_ok "Int" "i64"
        else if String.eqb tn "Float" then String.eqb ln "Float" && alias_ok "Float" "f64"
        else if String.eqb tn "Boolean" then String.eqb ln "Boolean" && alias_ok "Boolean" "bool"
        else if String.eqb tn "String" then String.eqb ln "String"
        else if String.eqb tn "ID" then String.eqb ln "ID" && alias_ok "ID" "String"
        else negb (is_prim ln) && negb (String.eqb ln "&str") &&
             match find_item ln env with None | Some (IAliasPath _ _) => true | _ => false end
    | Some KEnum =>
        negb (is_prim ln) && negb (String.eqb ln "&str") &&
        match find_item ln env, find_enum s tn with
        | Some (IStrEnum _ _ _ sa _ _ _), Some vals => forallb (fun p => mem_str (snd p) vals) sa
        | _, _ => false
        end
    | Some KInput =>
        negb (is_prim ln) && negb (String.eqb ln "&str") &&
        match find_input s tn, find_item ln env with
        | Some inp, Some (IStruct _ _ _ fields) =>
            negb (ai_one_of inp) &&
            forallb (fun fd => negb (f_flatten fd)) fields && nodup_str (map field_wire fields) &&
            Nat.eqb (List.length fields) (List.length (ai_fields inp)) &&
            forallb (fun p => String.eqb (field_wire (fst p)) (fst (snd p)) &&
                              member_ok tm (f_ty (fst p)) (snd (snd p)) &&
                              (negb (f_skip_none (fst p)) || is_nullable (snd (snd p))))
                    (combine fields (ai_fields inp))
        | Some inp, Some (IExtEnum _ _ _ variants) =>
            ai_one_of inp && nodup_str (map v_ident variants) && nodup_str (map fst (ai_fields inp)) &&
            Nat.eqb (List.length variants) (List.length (ai_fields inp)) &&
            forallb (fun p => String.eqb (variant_wire (fst p)) (fst (snd p)) &&
                              match v_payload (fst p) with
                              | Some pt => member_ok_core tm pt (snd (snd p))
                              | None => false end)
                    (combine variants (ai_fields inp))
        | _, _ => false
        end
    | _ => false
    end.

  Definition tm_ok (tm : tmap) : bool := forallb (fun p => type_ok tm (fst p) (snd p)) tm.

  (* the Variables struct against the operation's variable definitions *)
  Definition vars_ok (tm : tmap) (vars : list vardef) : bool :=
    tm_ok tm &&
    match vars, find_item "Variables" env with
    | [], Some (IUnit _ _ _) => true
    | _ :: _, Some (IStruct _ _ _ fields) =>
        forallb (fun fd => negb (f_flatten fd)) fields && nodup_str (map field_wire fields) &&
        Nat.eqb (List.length fields) (List.length vars) &&
        forallb (fun p => String.eqb (field_wire (fst p)) (vd_name (snd p)) &&
                          member_ok tm (f_ty (fst p)) (vd_type (snd p)) &&
                          (negb (f_skip_none (fst p)) || is_nullable (vd_type (snd p))))
                (combine fields vars)
    | _, _ => false
    end.
End Cert.

Lemma depth_arr f l y : jdepth (JArr l) <= f -> In y l -> jdepth y <= f.
Proof. intros H Hin. pose proof (jdepth_elem l y Hin). lia. Qed.

(* ---------- soundness *)
Section CertSound.
  Variables (s : aschema) (env : list ritem) (tm : tmap).
  Hypothesis Htm : tm_ok s env tm = true.

  Definition NamedValid (f : nat) : Prop :=
    forall ln tn, assoc ln tm = Some tn ->
    forall F v j, clean v = true -> ser F env (RNamed ln) v = Some j -> jdepth j <= f ->
    vnamed s f tn j = true /\ is_null j = false.

  Lemma assoc_in_tm ln tn : assoc ln tm = Some tn -> type_ok s env tm ln tn = true.
  Proof.
    intros H. unfold tm_ok in Htm. rewrite forallb_forall in Htm.
    assert (Hin : In (ln, tn) tm).
    { clear -H. induction tm as [|[k x] r IH]; [discriminate|]. cbn [assoc] in H.
      destruct (String.eqb_spec ln k) as [->|]; [inversion H; left; reflexivity|right; exact (IH H)]. }
    exact (Htm _ Hin).
  Qed.

  Lemma member_valid f : NamedValid f ->
    forall r ty, member_ok tm r ty = true ->
    forall F x jx, clean x = true -> ser F env r x = Some jx -> jdepth jx <= f ->
    ctype (vnamed s f (gname ty)) true ty jx = true.
  Proof.
    intros IHf r ty Hm F x jx Hc Hs Hd. unfold member_ok in Hm.
    apply andb_true_iff in Hm. destruct Hm as [Hm Has]. apply andb_true_iff in Hm. destruct Hm as [Hwf Hr].
    apply rtype_eqb_eq in Hr.
    destruct (assoc (rleaf r) tm) as [tn|] eqn:Ea; [|discriminate]. cbn [opt_eqb] in Has. apply String.eqb_eq in Has. subst tn.
    destruct (ser_strip_box env r F x jx Hs) as [F' Hs']. rewrite Hr in Hs'.
    apply (proj1 (ser_both env (rleaf r) (vnamed s f (gname ty)) (fun j => jdepth j <= f)
                    (depth_arr f)
                    (fun F0 v0 j0 Hq Hc0 Hs0 => IHf _ _ Ea F0 v0 j0 Hc0 Hs0 Hq) ty Hwf) F' x jx Hd Hc Hs').
  Qed.

  Lemma member_core_valid f : NamedValid f ->
    forall r ty, member_ok_core tm r ty = true ->
    forall F x jx, clean x = true -> ser F env r x = Some jx -> jdepth jx <= f ->
    ctype (vnamed s f (gname ty)) true ty jx = true /\ is_null jx = false.
  Proof.
    intros IHf r ty Hm F x jx Hc Hs Hd. unfold member_ok_core in Hm.
    apply andb_true_iff in Hm. destruct Hm as [Hm Has]. apply andb_true_iff in Hm. destruct Hm as [Hm Hr].
    apply andb_true_iff in Hm. destruct Hm as [Hwf Hnn].
    apply rtype_eqb_eq in Hr.
    destruct (assoc (rleaf r) tm) as [tn|] eqn:Ea; [|discriminate]. cbn [opt_eqb] in Has. apply String.eqb_eq in Has. subst tn.
    destruct (ser_strip_box env r F x jx Hs) as [F' Hs']. rewrite Hr in Hs'.
    pose proof (proj2 (ser_both env (rleaf r) (vnamed s f (gname ty)) (fun j => jdepth j <= f)
                    (depth_arr f)
                    (fun F0 v0 j0 Hq Hc0 Hs0 => IHf _ _ Ea F0 v0 j0 Hc0 Hs0 Hq) ty Hwf)) as Hcore.
    destruct ty as [n|u|u]; try discriminate.
    - destruct (Hcore F' x jx Hd Hc Hs') as [H1 H2]. split; [apply ctype_weaken; exact H1|exact H2].
    - destruct (Hcore F' x jx Hd Hc Hs') as [H1 H2]. split; [apply ctype_weaken; exact H1|exact H2].
  Qed.
End CertSound.

Lemma assoc_in {A} k (l : list (string * A)) v : assoc k l = Some v -> In (k, v) l.
Proof.
  induction l as [|[k' v'] r IH]; [discriminate|]. cbn [assoc].
  destruct (String.eqb_spec k k') as [->|]; [intros H; inversion H; left; reflexivity|intros H; right; exact (IH H)].
Qed.

Lemma ser_fields_all_assoc S vals fs m : ser_fields S vals fs = Some m -> forall fd, In fd fs -> assoc (f_ident fd) vals <> None.
Proof.
  revert m. induction fs as [|g r IH]; intros m H fd Hin; [destruct Hin|].
  cbn [ser_fields] in H. destruct (assoc (f_ident g) vals) as [x|] eqn:Ea; [|discriminate].
  destruct Hin as [<-|Hin]; [rewrite Ea; discriminate|].
  destruct (f_flatten g).
  - destruct (S (f_ty g) x) as [[| | | | | |es]|]; try discriminate.
    destruct (ser_fields S vals r) as [rest|] eqn:Er; [|discriminate]. exact (IH rest eq_refl fd Hin).
  - destruct (f_skip_none g && is_vnone x); [exact (IH m H fd Hin)|].
    destruct (S (f_ty g) x); [|discriminate]. destruct (ser_fields S vals r) as [rest|] eqn:Er; [|discriminate].
    exact (IH rest eq_refl fd Hin).
Qed.

Lemma ser_fields_entries S vals fields m :
  forallb (fun fd => negb (f_flatten fd)) fields = true -> NoDup (map field_wire fields) ->
  ser_fields S vals fields = Some m ->
  NoDup (map fst m) /\
  (forall k, In k (map fst m) -> In k (map field_wire fields)) /\
  forall fd, In fd fields ->
    match obj_get (field_wire fd) m with
    | Some jx => exists x, assoc (f_ident fd) vals = Some x /\ S (f_ty fd) x = Some jx
    | None => f_skip_none fd = true
    end.
Proof.
  intros Hp Hw Hs. pose proof (ser_fields_keys S vals fields m Hp Hs) as Hk.
  assert (Hnd : NoDup (map fst m)) by (rewrite Hk; apply nodup_map_filter; exact Hw).
  split; [exact Hnd|]. split.
  - intros k Hin. rewrite Hk in Hin. apply in_map_iff in Hin. destruct Hin as [g [<- Hg]]. apply filter_In in Hg.
    apply in_map. exact (proj1 Hg).
  - intros fd Hfd. destruct (kept vals fd) eqn:Ekept.
    + destruct (ser_fields_member S vals fields m fd Hp Hw Hs Hfd Ekept) as [x [j [H1 [H2 H3]]]].
      rewrite (in_obj_get m _ _ Hnd H3). exists x. split; assumption.
    + destruct (obj_get (field_wire fd) m) as [jx|] eqn:Eg.
      * exfalso. apply obj_get_in in Eg. assert (Hin : In (field_wire fd) (map fst m)) by (apply in_map_iff; exists (field_wire fd, jx); split; [reflexivity|exact Eg]).
        rewrite Hk in Hin. apply in_map_iff in Hin. destruct Hin as [g [Egw Hg]]. apply filter_In in Hg. destruct Hg as [Hgin Hgk].
        assert (g = fd) by (apply (nodup_map_inj field_wire fields); auto). subst g. congruence.
      * unfold kept in Ekept. pose proof (ser_fields_all_assoc S vals fields m Hs fd Hfd) as Ha.
        destruct (assoc (f_ident fd) vals) as [x|]; [|congruence]. apply negb_false_iff in Ekept.
        apply andb_true_iff in Ekept. exact (proj1 Ekept).
Qed.

Lemma in_assoc {A} (l : list (string * A)) k v : NoDup (map fst l) -> In (k, v) l -> assoc k l = Some v.
Proof.
  induction l as [|[k' v'] r IH]; intros Hnd Hin; [destruct Hin|].
  cbn [assoc]. inversion Hnd as [|? ? Hk Hnd']; subst.
  destruct Hin as [E|Hin].
  - inversion E; subst. rewrite String.eqb_refl. reflexivity.
  - destruct (String.eqb_spec k k') as [->|Hne]; [|exact (IH Hnd' Hin)].
    exfalso. apply Hk. change k' with (fst (k', v)). apply in_map. exact Hin.
Qed.

Lemma combine_map_fst {A B} (l : list A) (l' : list B) (f : A -> string) (g : B -> string) :
  List.length l = List.length l' -> (forall p, In p (combine l l') -> f (fst p) = g (snd p)) -> map f l = map g l'.
Proof.
  revert l'. induction l as [|x r IH]; intros [|y t] Hl H; try discriminate; [reflexivity|].
  cbn [map]. f_equal; [exact (H (x, y) (or_introl eq_refl))|].
  apply IH; [exact (f_equal pred Hl)|]. intros p Hp. apply H. right. exact Hp.
Qed.

Section CertMain.
  Variables (s : aschema) (env : list ritem) (tm : tmap).
  Hypothesis Htm : tm_ok s env tm = true.

  Lemma alias_ok_find n p : alias_ok env n p = true -> exists n', find_item n env = Some (IAlias n' (RNamed p)).
  Proof.
    unfold alias_ok. destruct (find_item n env) as [[| | | | | |n' [q| | | |]| |]|]; try discriminate.
    intros H. apply String.eqb_eq in H. subst q. exists n'. reflexivity.
  Qed.

  Lemma clean_assoc vals k x : forallb (fun e : string * rvalue => clean (snd e)) vals = true -> assoc k vals = Some x -> clean x = true.
  Proof. intros H Ha. rewrite forallb_forall in H. exact (H _ (assoc_in k vals x Ha)). Qed.

  Theorem named_valid_all : forall f, NamedValid s env tm f.
  Proof.
    induction f as [|f IH]; intros ln tn Ha F v j Hc Hs Hd; [pose proof (jdepth_pos j); lia|].
    pose proof (assoc_in_tm s env tm Htm ln tn Ha) as Hok. unfold type_ok in Hok.
    cbn [vnamed]. destruct (find_kind_sdl s tn) as [[| | | | |]|] eqn:Ek; try discriminate.
    - (* scalar *)
      unfold scalar_input.
      destruct (String.eqb_spec tn "Int") as [->|N1].
      { apply andb_true_iff in Hok. destruct Hok as [Hl Hal]. apply String.eqb_eq in Hl. subst ln.
        destruct (alias_ok_find _ _ Hal) as [n' Hf].
        destruct F as [|[|F]]; try discriminate; cbn [ser] in Hs;
          change (prim_ser "Int" v) with (@None (option json)) in Hs; cbv iota in Hs; rewrite Hf in Hs; try discriminate.
        cbn in Hs. destruct v; try discriminate. inversion Hs; subst. split; reflexivity. }
      destruct (String.eqb_spec tn "Float") as [->|N2].
      { apply andb_true_iff in Hok. destruct Hok as [Hl Hal]. apply String.eqb_eq in Hl. subst ln.
        destruct (alias_ok_find _ _ Hal) as [n' Hf].
        destruct F as [|[|F]]; try discriminate; cbn [ser] in Hs;
          change (prim_ser "Float" v) with (@None (option json)) in Hs; cbv iota in Hs; rewrite Hf in Hs; try discriminate.
        cbn in Hs. destruct v; try discriminate. inversion Hs; subst j0. cbn [clean] in Hc.
        destruct j; try discriminate; split; reflexivity. }
      destruct (String.eqb_spec tn "Boolean") as [->|N3].
      { apply andb_true_iff in Hok. destruct Hok as [Hl Hal]. apply String.eqb_eq in Hl. subst ln.
        destruct (alias_ok_find _ _ Hal) as [n' Hf].
        destruct F as [|[|F]]; try discriminate; cbn [ser] in Hs;
          change (prim_ser "Boolean" v) with (@None (option json)) in Hs; cbv iota in Hs; rewrite Hf in Hs; try discriminate.
        cbn in Hs. destruct v; try discriminate. inversion Hs; subst. split; reflexivity. }
      destruct (String.eqb_spec tn "String") as [->|N4].
      { apply String.eqb_eq in Hok. subst ln. destruct F as [|F]; [discriminate|]. cbn in Hs.
        destruct v; try discriminate. inversion Hs; subst. split; reflexivity. }
      destruct (String.eqb_spec tn "ID") as [->|N5].
      { apply andb_true_iff in Hok. destruct Hok as [Hl Hal]. apply String.eqb_eq in Hl. subst ln.
        destruct (alias_ok_find _ _ Hal) as [n' Hf].
        destruct F as [|[|F]]; try discriminate; cbn [ser] in Hs;
          change (prim_ser "ID" v) with (@None (option json)) in Hs; cbv iota in Hs; rewrite Hf in Hs; try discriminate.
        cbn in Hs. destruct v; try discriminate. inversion Hs; subst. split; reflexivity. }
      (* custom scalar *)
      apply andb_true_iff in Hok. destruct Hok as [Hok Hfi]. apply andb_true_iff in Hok. destruct Hok as [Hp Hstr].
      apply negb_true_iff in Hp. apply negb_true_iff in Hstr. apply String.eqb_neq in Hstr.
      destruct F as [|F]; [discriminate|]. cbn [ser] in Hs. rewrite (prim_ser_none ln v Hp Hstr) in Hs.
      split; [reflexivity|].
      destruct (find_item ln env) as [[]|]; try discriminate; destruct v; try discriminate;
        inversion Hs; subst; cbn [clean] in Hc; apply negb_true_iff in Hc; exact Hc.
    - (* enum *)
      apply andb_true_iff in Hok. destruct Hok as [Hok Hfi]. apply andb_true_iff in Hok. destruct Hok as [Hp Hstr].
      apply negb_true_iff in Hp. apply negb_true_iff in Hstr. apply String.eqb_neq in Hstr.
      destruct F as [|F]; [discriminate|]. cbn [ser] in Hs. rewrite (prim_ser_none ln v Hp Hstr) in Hs.
      destruct (find_item ln env) as [[| | | | |n' d vs sa so da dd| | |]|] eqn:Ef; try discriminate.
      destruct (find_enum s tn) as [vals|] eqn:Ee; [|discriminate].
      destruct v as [| | | | | | | |i p| | |]; try discriminate.
      cbn [clean] in Hc. apply andb_true_iff in Hc. destruct Hc as [Hno _]. apply negb_true_iff in Hno.
      rewrite Hno in Hs. destruct p as [pv|]; [discriminate|].
      unfold strenum_ser in Hs. destruct (assoc i sa) as [w|] eqn:Ea2; [|discriminate]. inversion Hs; subst j.
      rewrite forallb_forall in Hfi. specialize (Hfi (i, w) (assoc_in i sa w Ea2)). cbn [snd] in Hfi.
      split; [exact Hfi|reflexivity].
    - (* input object *)
      apply andb_true_iff in Hok. destruct Hok as [Hok Hfi]. apply andb_true_iff in Hok. destruct Hok as [Hp Hstr].
      apply negb_true_iff in Hp. apply negb_true_iff in Hstr. apply String.eqb_neq in Hstr.
      destruct F as [|F]; [discriminate|]. cbn [ser] in Hs. rewrite (prim_ser_none ln v Hp Hstr) in Hs.
      destruct (find_input s tn) as [inp|] eqn:Ei; [|discriminate].
      destruct (find_item ln env) as [[nm d c fields| | |nm d c variants| | | | |]|] eqn:Ef; try discriminate.
      + (* a struct *)
        repeat (apply andb_true_iff in Hfi; destruct Hfi as [Hfi ?]).
        match goal with H : forallb _ (combine fields (ai_fields inp)) = true |- _ => rename H into Hpairs end.
        match goal with H : Nat.eqb _ _ = true |- _ => apply Nat.eqb_eq in H; rename H into Hlen end.
        match goal with H : nodup_str (map field_wire fields) = true |- _ => apply nodup_str_NoDup in H; rename H into Hw end.
        match goal with H : forallb (fun fd => negb (f_flatten fd)) fields = true |- _ => rename H into Hplain end.
        apply negb_true_iff in Hfi. rewrite Hfi.
        destruct v as [| | | | | | |vals| | | |]; try discriminate. cbn [clean] in Hc.
        destruct (ser_fields (ser F env) vals fields) as [m|] eqn:Esf; [|discriminate]. inversion Hs; subst j. clear Hs.
        destruct (ser_fields_entries (ser F env) vals fields m Hplain Hw Esf) as [Hnd [Hkeys Hent]].
        rewrite forallb_forall in Hpairs.
        assert (Hwires : map field_wire fields = map fst (ai_fields inp)).
        { apply combine_map_fst; [exact Hlen|]. intros p0 Hp0. specialize (Hpairs p0 Hp0).
          apply andb_true_iff in Hpairs. destruct Hpairs as [Hpp _]. apply andb_true_iff in Hpp. destruct Hpp as [Hpw _].
          apply String.eqb_eq in Hpw. exact Hpw. }
        split; [|reflexivity].
        apply andb_true_iff. split; [apply andb_true_iff; split|].
        * apply nodup_str_NoDup. exact Hnd.
        * apply forallb_forall. intros e He. apply mem_str_In. rewrite <- Hwires. apply Hkeys. apply in_map. exact He.
        * apply forallb_forall. intros [k ty] Hkt.
          destruct (in_combine_exists_r fields (ai_fields inp) (k, ty) Hlen Hkt) as [fd Hfd].
          specialize (Hpairs _ Hfd). cbn [fst snd] in Hpairs.
          apply andb_true_iff in Hpairs. destruct Hpairs as [Hpp Hskip]. apply andb_true_iff in Hpp. destruct Hpp as [Hpw Hmem].
          apply String.eqb_eq in Hpw. specialize (Hent fd (in_combine_l _ _ _ _ Hfd)). rewrite Hpw in Hent. cbn [fst snd].
          destruct (obj_get k m) as [jx|] eqn:Eg.
          -- destruct Hent as [x [Hax Hsx]].
             apply (member_valid s env tm f IH (f_ty fd) ty Hmem F x jx (clean_assoc vals _ x Hc Hax) Hsx).
             pose proof (jdepth_member m k jx (obj_get_in m k jx Eg)). lia.
          -- rewrite Hent in Hskip. cbn [negb orb] in Hskip. exact Hskip.
      + (* an @oneOf enum *)
        repeat (apply andb_true_iff in Hfi; destruct Hfi as [Hfi ?]).
        match goal with H : forallb _ (combine variants (ai_fields inp)) = true |- _ => rename H into Hpairs end.
        match goal with H : Nat.eqb _ _ = true |- _ => apply Nat.eqb_eq in H; rename H into Hlen end.
        rewrite Hfi.
        destruct v as [| | | | | | | |i p| | |]; try discriminate. cbn [clean] in Hc.
        apply andb_true_iff in Hc. destruct Hc as [_ Hcp].
        destruct (find (fun x => String.eqb (v_ident x) i) variants) as [x|] eqn:Efx; [|discriminate].
        apply find_some in Efx. destruct Efx as [Hxin _].
        destruct (in_combine_exists variants (ai_fields inp) x Hlen Hxin) as [[k ty] Hxk].
        rewrite forallb_forall in Hpairs. specialize (Hpairs _ Hxk). cbn [fst snd] in Hpairs.
        apply andb_true_iff in Hpairs. destruct Hpairs as [Hpw Hpay]. apply String.eqb_eq in Hpw.
        destruct (v_payload x) as [pt|] eqn:Epx; [|discriminate].
        destruct p as [pv|]; [|discriminate].
        destruct (ser F env pt pv) as [j'|] eqn:Esp; [|discriminate]. cbn [option_map] in Hs. inversion Hs; subst j. clear Hs.
        destruct (member_core_valid s env tm f IH pt ty Hpay F pv j' Hcp Esp) as [Hct Hnn].
        { pose proof (jdepth_member [(variant_wire x, j')] (variant_wire x) j' (or_introl eq_refl)). lia. }
        split; [|reflexivity]. rewrite Hpw.
        match goal with H : nodup_str (map fst (ai_fields inp)) = true |- _ => apply nodup_str_NoDup in H; rename H into Hfn end.
        pose proof (in_assoc (ai_fields inp) k ty Hfn (in_combine_r _ _ _ _ Hxk)) as Hka.
        cbn [map fst nodup_str mem_str forallb andb].
        apply andb_true_iff. split.
        * apply andb_true_iff. split; [reflexivity|].
          apply andb_true_iff. split; [|reflexivity]. apply mem_str_In. apply in_map_iff. exists (k, ty). split; [reflexivity|].
          exact (in_combine_r _ _ _ _ Hxk).
        * rewrite Hnn, Hka. cbn [negb andb]. exact Hct.
  Qed.
End CertMain.

(* ---------- the Variables of an operation *)
Theorem variables_valid s env tm vars :
  vars_ok s env tm vars = true ->
  forall F v j, clean v = true -> ser F env (RNamed "Variables") v = Some j -> valid_variables s vars j = true.
Proof.
  unfold vars_ok. intros H F v j Hc Hs. apply andb_true_iff in H. destruct H as [Htm H].
  destruct F as [|F]; [discriminate|]. cbn [ser] in Hs.
  change (prim_ser "Variables" v) with (@None (option json)) in Hs. cbv iota in Hs.
  destruct vars as [|v0 vs].
  - destruct (find_item "Variables" env) as [[]|]; try discriminate.
    destruct v; try discriminate. inversion Hs; subst. reflexivity.
  - destruct (find_item "Variables" env) as [[nm d c fields| | | | | | | |]|] eqn:Ef; try discriminate.
    repeat (apply andb_true_iff in H; destruct H as [H ?]).
    match goal with H0 : forallb _ (combine fields (v0 :: vs)) = true |- _ => rename H0 into Hpairs end.
    match goal with H0 : Nat.eqb _ _ = true |- _ => apply Nat.eqb_eq in H0; rename H0 into Hlen end.
    match goal with H0 : nodup_str (map field_wire fields) = true |- _ => apply nodup_str_NoDup in H0; rename H0 into Hw end.
    rename H into Hplain.
    destruct v as [| | | | | | |vals| | | |]; try discriminate. cbn [clean] in Hc.
    destruct (ser_fields (ser F env) vals fields) as [m|] eqn:Esf; [|discriminate]. inversion Hs; subst j. clear Hs.
    destruct (ser_fields_entries (ser F env) vals fields m Hplain Hw Esf) as [Hnd [Hkeys Hent]].
    rewrite forallb_forall in Hpairs.
    assert (Hwires : map field_wire fields = map vd_name (v0 :: vs)).
    { apply combine_map_fst; [exact Hlen|]. intros p0 Hp0. specialize (Hpairs p0 Hp0).
      apply andb_true_iff in Hpairs. destruct Hpairs as [Hpp _]. apply andb_true_iff in Hpp. destruct Hpp as [Hpw _].
      apply String.eqb_eq in Hpw. exact Hpw. }
    unfold valid_variables.
    apply andb_true_iff. split; [apply andb_true_iff; split|].
    + apply nodup_str_NoDup. exact Hnd.
    + apply forallb_forall. intros e He. apply mem_str_In. rewrite <- Hwires. apply Hkeys. apply in_map. exact He.
    + apply forallb_forall. intros vd Hvd.
      destruct (in_combine_exists_r fields (v0 :: vs) vd Hlen Hvd) as [fd Hfd].
      specialize (Hpairs _ Hfd). cbn [fst snd] in Hpairs.
      apply andb_true_iff in Hpairs. destruct Hpairs as [Hpp Hskip]. apply andb_true_iff in Hpp. destruct Hpp as [Hpw Hmem].
      apply String.eqb_eq in Hpw. specialize (Hent fd (in_combine_l _ _ _ _ Hfd)). rewrite Hpw in Hent.
      destruct (obj_get (vd_name vd) m) as [jx|] eqn:Eg.
      * destruct Hent as [x [Hax Hsx]]. unfold vtype.
        apply (member_valid s env tm (S (jdepth (JObj m))) (named_valid_all s env tm Htm _) (f_ty fd) (vd_type vd) Hmem F x jx
                 (clean_assoc vals _ x Hc Hax) Hsx).
        pose proof (jdepth_member m _ jx (obj_get_in m _ jx Eg)). lia.
      * rewrite Hent in Hskip. cbn [negb orb] in Hskip. rewrite Hskip. reflexivity.
Qed.
