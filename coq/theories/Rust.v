(* Rust.v — abstract Rust items: the common datatype of (a) declarations translated from
   /repo by the translator, (b) token streams returned by the real generator and parsed by
   syn in the harness, and (c) the output of the Gallina model of the generator. *)
From GC Require Import Base.

Inductive rtype :=
| RNamed (n : string)
| ROption (t : rtype)
| RVec (t : rtype)
| RBox (t : rtype)
| RMap (t : rtype).            (* HashMap<String, t> *)

Fixpoint rtype_eqb (a b : rtype) : bool :=
  match a, b with
  | RNamed x, RNamed y => String.eqb x y
  | ROption x, ROption y | RVec x, RVec y | RBox x, RBox y | RMap x, RMap y => rtype_eqb x y
  | _, _ => false
  end.

Lemma rtype_eqb_eq a b : rtype_eqb a b = true <-> a = b.
Proof.
  revert b; induction a as [x|x IH|x IH|x IH|x IH]; intros [y|y|y|y|y]; cbn;
    try (split; [discriminate|intros H; discriminate H]).
  - rewrite String.eqb_eq. split; [intros ->; reflexivity|intros H; inversion H; reflexivity].
  - rewrite IH. split; [intros ->; reflexivity|intros H; inversion H; reflexivity].
  - rewrite IH. split; [intros ->; reflexivity|intros H; inversion H; reflexivity].
  - rewrite IH. split; [intros ->; reflexivity|intros H; inversion H; reflexivity].
  - rewrite IH. split; [intros ->; reflexivity|intros H; inversion H; reflexivity].
Qed.

Record rfield := mkField {
  f_ident : string;                       (* Rust identifier as emitted *)
  f_ty : rtype;
  f_rename : option string;               (* #[serde(rename = "...")] *)
  f_flatten : bool;                       (* #[serde(flatten)] *)
  f_skip_none : bool;                     (* #[serde(skip_serializing_if = "Option::is_none")] *)
  f_deprecated : option (option string);  (* #[deprecated] / #[deprecated(note = "...")] *)
  f_deser_with : option string;           (* last path segment of deserialize_with *)
  f_default : bool                        (* #[serde(default)] *)
}.

Record rvariant := mkVariant {
  v_ident : string;
  v_rename : option string;
  v_payload : option rtype;
  v_other : bool                          (* #[serde(other)] *)
}.

Inductive ritem :=
| IStruct (name : string) (derives : list string) (serde_crate : option string) (fields : list rfield)
| IUnit (name : string) (derives : list string) (serde_crate : option string)
| ITagEnum (name : string) (derives : list string) (serde_crate : option string) (tag : string)
           (variants : list rvariant)
| IExtEnum (name : string) (derives : list string) (serde_crate : option string) (variants : list rvariant)
| IUntagged (name : string) (derives : list string) (variants : list rvariant)
| IStrEnum (name : string) (derives : list string) (variants : list string)
           (ser_arms : list (string * string))     (* variant ident -> wire string *)
           (ser_other : bool)                      (* Other(ref s) => &s present *)
           (de_arms : list (string * string))      (* wire string -> variant ident *)
           (de_other : bool)                       (* _ => Ok(Other(s)) present *)
| IAlias (name : string) (target : rtype)
| IAliasPath (name : string) (path : list string)  (* type X = super::X / module::X *)
| IOpaque (name : string).                         (* something the converter does not understand *)

Definition item_name (i : ritem) : string :=
  match i with
  | IStruct n _ _ _ | IUnit n _ _ | ITagEnum n _ _ _ _ | IExtEnum n _ _ _ | IUntagged n _ _
  | IStrEnum n _ _ _ _ _ _ | IAlias n _ | IAliasPath n _ | IOpaque n => n
  end.

Definition ostr_eqb := opt_eqb String.eqb.

Definition rfield_eqb (a b : rfield) : bool :=
  String.eqb (f_ident a) (f_ident b) && rtype_eqb (f_ty a) (f_ty b) &&
  ostr_eqb (f_rename a) (f_rename b) && Bool.eqb (f_flatten a) (f_flatten b) &&
  Bool.eqb (f_skip_none a) (f_skip_none b) &&
  opt_eqb ostr_eqb (f_deprecated a) (f_deprecated b) &&
  ostr_eqb (f_deser_with a) (f_deser_with b) && Bool.eqb (f_default a) (f_default b).

Definition rvariant_eqb (a b : rvariant) : bool :=
  String.eqb (v_ident a) (v_ident b) && ostr_eqb (v_rename a) (v_rename b) &&
  opt_eqb rtype_eqb (v_payload a) (v_payload b) && Bool.eqb (v_other a) (v_other b).

Definition pair_eqb (a b : string * string) : bool :=
  String.eqb (fst a) (fst b) && String.eqb (snd a) (snd b).

(* the order of the traits inside #[derive(...)] means nothing: derive lists are compared as
   multisets (a repeated trait is a compile error, so multiplicity is kept) *)
Fixpoint insert_str (x : string) (l : list string) : list string :=
  match l with
  | [] => [x]
  | y :: r => if String.leb x y then x :: l else y :: insert_str x r
  end.
Definition sort_strs (l : list string) : list string := fold_right insert_str [] l.
Definition derives_eqb (d d' : list string) : bool := lstr_eqb (sort_strs d) (sort_strs d').

Definition ritem_eqb (a b : ritem) : bool :=
  match a, b with
  | IStruct n d c f, IStruct n' d' c' f' =>
      String.eqb n n' && derives_eqb d d' && ostr_eqb c c' && list_eqb rfield_eqb f f'
  | IUnit n d c, IUnit n' d' c' => String.eqb n n' && derives_eqb d d' && ostr_eqb c c'
  | ITagEnum n d c t v, ITagEnum n' d' c' t' v' =>
      String.eqb n n' && derives_eqb d d' && ostr_eqb c c' && String.eqb t t' && list_eqb rvariant_eqb v v'
  | IExtEnum n d c v, IExtEnum n' d' c' v' =>
      String.eqb n n' && derives_eqb d d' && ostr_eqb c c' && list_eqb rvariant_eqb v v'
  | IUntagged n d v, IUntagged n' d' v' =>
      String.eqb n n' && derives_eqb d d' && list_eqb rvariant_eqb v v'
  | IStrEnum n d vs sa so da dd, IStrEnum n' d' vs' sa' so' da' dd' =>
      String.eqb n n' && derives_eqb d d' && lstr_eqb vs vs' && list_eqb pair_eqb sa sa' &&
      Bool.eqb so so' && list_eqb pair_eqb da da' && Bool.eqb dd dd'
  | IAlias n t, IAlias n' t' => String.eqb n n' && rtype_eqb t t'
  | IAliasPath n p, IAliasPath n' p' => String.eqb n n' && lstr_eqb p p'
  | IOpaque n, IOpaque n' => String.eqb n n'
  | _, _ => false
  end.

(* The module skeleton emitted per operation (generated_module.rs). *)
Inductive vis := VInherited | VPub | VRestricted (path : string).

Definition vis_eqb (a b : vis) : bool :=
  match a, b with
  | VInherited, VInherited | VPub, VPub => true
  | VRestricted x, VRestricted y => String.eqb x y
  | _, _ => false
  end.

Record rmodule := mkModule {
  m_struct_decl : option (string * vis);   (* `pub struct Op;` in CLI mode *)
  m_name : string;                          (* mod name *)
  m_vis : vis;
  m_operation_name : string;                (* OPERATION_NAME *)
  m_query : string;                         (* QUERY *)
  m_include : option string;                (* include_str!(path) *)
  m_uses : list (list string);              (* use paths inside the module *)
  m_items : list ritem;
  m_impl_for : string;                      (* impl GraphQLQuery for <ident> *)
  m_impl_body : list (string * string)      (* (QueryBody member, constant it is filled from) *)
}.

(* The order in which a module lists its items means nothing to Rust (and to none of the
   properties): modules are compared up to it.  Stable insertion sort by item name, so that
   items of one name (the collision classes K3/K4) keep their relative order. *)
Fixpoint insert_item (x : ritem) (l : list ritem) : list ritem :=
  match l with
  | [] => [x]
  | y :: r => if String.leb (item_name x) (item_name y) then x :: l else y :: insert_item x r
  end.
Definition sort_items (l : list ritem) : list ritem := fold_right insert_item [] l.

(* ... and so is the order of its `use` declarations *)
Definition use_key (p : list string) : string := fold_right (fun s acc => (s ++ "::" ++ acc)%string) "" p.
Fixpoint insert_use (x : list string) (l : list (list string)) : list (list string) :=
  match l with
  | [] => [x]
  | y :: r => if String.leb (use_key x) (use_key y) then x :: l else y :: insert_use x r
  end.
Definition sort_uses (l : list (list string)) : list (list string) := fold_right insert_use [] l.

Definition rmodule_eqb (a b : rmodule) : bool :=
  opt_eqb (fun x y => String.eqb (fst x) (fst y) && vis_eqb (snd x) (snd y)) (m_struct_decl a) (m_struct_decl b) &&
  String.eqb (m_name a) (m_name b) && vis_eqb (m_vis a) (m_vis b) &&
  String.eqb (m_operation_name a) (m_operation_name b) && String.eqb (m_query a) (m_query b) &&
  ostr_eqb (m_include a) (m_include b) && list_eqb lstr_eqb (sort_uses (m_uses a)) (sort_uses (m_uses b)) &&
  list_eqb ritem_eqb (sort_items (m_items a)) (sort_items (m_items b)) && String.eqb (m_impl_for a) (m_impl_for b) &&
  list_eqb pair_eqb (m_impl_body a) (m_impl_body b).
