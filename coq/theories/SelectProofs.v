(* SelectProofs.v — C05: operation selection, module constants, request body. *)
From GC Require Import Base Rust Json TypeExpr Heck Strs Naming Enums Schema Query Attrs Codegen Serde RunSerde.
From GC.Gen Require Import LibTypes.

(* ---------- (a) the request body, over the TRANSLATED QueryBody *)
Theorem query_body_wire v q n :
  ser FUEL lib_items (RNamed "QueryBody")
      (VStruct [("variables", VJson v); ("query", VStr q); ("operation_name", VStr n)])
  = Some (JObj [("variables", v); ("query", JStr q); ("operationName", JStr n)]).
Proof. lazy. reflexivity. Qed.

(* ---------- select_operation *)
Lemma select_sound o ops n op : select_operation o ops n = Some op -> In op ops /\ norm o (ro_name op) = n.
Proof.
  unfold select_operation. intros H. apply find_some in H. destruct H as [H1 H2].
  split; [exact H1|]. apply String.eqb_eq. exact H2.
Qed.

Lemma select_none o ops n : select_operation o ops n = None -> forall op, In op ops -> norm o (ro_name op) <> n.
Proof.
  unfold select_operation. intros H op Hin E.
  pose proof (find_none _ _ H op Hin) as X. cbn in X. rewrite E, String.eqb_refl in X. discriminate.
Qed.

Lemma select_unique o ops op :
  NoDup (map (fun x => norm o (ro_name x)) ops) -> In op ops ->
  select_operation o ops (norm o (ro_name op)) = Some op.
Proof.
  unfold select_operation. induction ops as [|x r IH]; intros Hnd Hin; [destruct Hin|].
  inversion Hnd as [|? ? Hni Hnd']; subst. cbn [find].
  destruct (String.eqb_spec (norm o (ro_name x)) (norm o (ro_name op))) as [E|E].
  - destruct Hin as [->|Hin]; [reflexivity|].
    exfalso. apply Hni. rewrite E. apply (in_map (fun y => norm o (ro_name y))). exact Hin.
  - destruct Hin as [->|Hin]; [congruence|]. apply IH; assumption.
Qed.

(* ---------- module constants *)
Lemma module_of_facts s q o text n m : module_of s q o text n = Ok m ->
  m_query m = text /\ m_operation_name m = n /\ m_name m = snake n /\ m_impl_for m = norm o n /\
  In ("query", (snake n ++ "::QUERY")%string) (m_impl_body m) /\
  In ("operation_name", (snake n ++ "::OPERATION_NAME")%string) (m_impl_body m) /\
  m_struct_decl m = (if o_cli o then Some (norm o n, module_vis o) else None).
Proof.
  unfold module_of. destruct (select_operation o (rq_ops q) (norm o n)) as [op|]; [|discriminate].
  destruct (operation_items s (rq_frags q) o op) as [items|]; [|discriminate].
  destruct (match all_used s (rq_frags q) op with Some u => double_required s u | None => false end); [discriminate|].
  intros H. inversion H; subst m; cbn. repeat split; try reflexivity; cbn; tauto.
Qed.

(* the items of a module are those of the operation its OPERATION_NAME names, provided the
   operation names stay distinct under the chosen normalization *)
Lemma module_of_items s q o text op m :
  NoDup (map (fun x => norm o (ro_name x)) (rq_ops q)) -> In op (rq_ops q) ->
  module_of s q o text (ro_name op) = Ok m ->
  operation_items s (rq_frags q) o op = Some (m_items m).
Proof.
  intros Hnd Hin. unfold module_of. rewrite (select_unique o (rq_ops q) op Hnd Hin).
  destruct (operation_items s (rq_frags q) o op) as [items|]; [|discriminate].
  destruct (match all_used s (rq_frags q) op with Some u => double_required s u | None => false end); [discriminate|].
  intros H. inversion H; subst m. reflexivity.
Qed.

(* ---------- which modules `generate` produces *)
Lemma map_result_names {A} (f : A -> result rmodule) (g : A -> string) l ms :
  (forall x m, f x = Ok m -> m_operation_name m = g x) ->
  map_result f l = Ok ms -> map m_operation_name ms = map g l.
Proof.
  intros Hf. revert ms. induction l as [|x r IH]; intros ms H; cbn [map_result] in H.
  - inversion H. reflexivity.
  - destruct (f x) as [m| |] eqn:E; cbn [bind] in H; try discriminate.
    destruct (map_result f r) as [ms'| |] eqn:E2; cbn [bind] in H; try discriminate.
    inversion H; subst ms. cbn [map]. f_equal; [exact (Hf x m E)|exact (IH ms' eq_refl)].
Qed.

Section Gen.
  Variables (s : aschema) (doc : list qdef) (o : opts) (text : string) (q : rquery).
  Hypothesis Hres : resolve s doc = Ok q.

  Lemma generate_unfold :
    generate s doc o text =
      match (match o_operation_name o with
             | Some n => option_map (fun op => [op]) (select_operation o (rq_ops q) n)
             | None => None end), o_cli o with
      | Some ops, _ => map_result (fun op => module_of s q o text (ro_name op)) ops
      | None, true => map_result (fun op => module_of s q o text (ro_name op)) (rq_ops q)
      | None, false => Err "The struct name does not match any defined operation in the query file."
      end.
  Proof. unfold generate. rewrite Hres. reflexivity. Qed.

  (* derive form: the struct name must select an operation of that (normalised) name; there is no
     fallback to another operation *)
  Theorem derive_no_fallback :
    o_cli o = false ->
    (forall n, o_operation_name o = Some n -> select_operation o (rq_ops q) n = None) ->
    exists msg, generate s doc o text = Err msg.
  Proof.
    intros Hd Hn. rewrite generate_unfold, Hd.
    destruct (o_operation_name o) as [n|]; [rewrite (Hn n eq_refl)|]; cbn; eauto.
  Qed.

  Theorem derive_selects_named n ms :
    o_cli o = false -> o_operation_name o = Some n -> generate s doc o text = Ok ms ->
    exists op m, ms = [m] /\ In op (rq_ops q) /\ norm o (ro_name op) = n /\
                 m_operation_name m = ro_name op /\ m_query m = text.
  Proof.
    intros Hd Hn. rewrite generate_unfold, Hd, Hn.
    destruct (select_operation o (rq_ops q) n) as [op|] eqn:E; cbn [option_map]; [|discriminate].
    cbn [map_result]. destruct (module_of s q o text (ro_name op)) as [m| |] eqn:Em; cbn [bind]; try discriminate.
    intros H. inversion H; subst ms. destruct (select_sound _ _ _ _ E) as [Hin Hnm].
    destruct (module_of_facts _ _ _ _ _ _ Em) as [Hq [Hop _]].
    exists op, m. repeat split; assumption.
  Qed.

  (* CLI / library form: an explicit matching name selects exactly that operation *)
  Theorem cli_explicit n ms :
    o_operation_name o = Some n -> (exists op, select_operation o (rq_ops q) n = Some op) ->
    generate s doc o text = Ok ms ->
    exists op m, ms = [m] /\ norm o (ro_name op) = n /\ m_operation_name m = ro_name op /\ m_query m = text.
  Proof.
    intros Hn [op E]. rewrite generate_unfold, Hn, E. cbn [option_map map_result].
    destruct (module_of s q o text (ro_name op)) as [m| |] eqn:Em; cbn [bind]; try discriminate.
    intros H. inversion H; subst ms. destruct (select_sound _ _ _ _ E) as [_ Hnm].
    destruct (module_of_facts _ _ _ _ _ _ Em) as [Hq [Hop _]].
    exists op, m. repeat split; assumption.
  Qed.

  (* no selection: one module per operation, in document order, each with the verbatim text *)
  Theorem cli_all ms :
    o_cli o = true -> o_operation_name o = None -> generate s doc o text = Ok ms ->
    map m_operation_name ms = map ro_name (rq_ops q) /\ forall m, In m ms -> m_query m = text.
  Proof.
    intros Hc Hn. rewrite generate_unfold, Hc, Hn. intros H. split.
    - apply (map_result_names (fun op => module_of s q o text (ro_name op)) ro_name (rq_ops q) ms); [|exact H].
      intros x m Hm. exact (proj1 (proj2 (module_of_facts _ _ _ _ _ _ Hm))).
    - revert ms H. induction (rq_ops q) as [|x r IH]; intros ms H m Hin; cbn [map_result] in H.
      + inversion H; subst. destruct Hin.
      + destruct (module_of s q o text (ro_name x)) as [m0| |] eqn:E; cbn [bind] in H; try discriminate.
        destruct (map_result _ r) as [ms'| |] eqn:E2; cbn [bind] in H; try discriminate.
        inversion H; subst ms. destruct Hin as [<-|Hin].
        * exact (proj1 (module_of_facts _ _ _ _ _ _ E)).
        * exact (IH ms' eq_refl m Hin).
  Qed.
End Gen.
