(* SerdeProofsC16.v — C16: the ID helpers over the TRANSLATED `IntOrString`, and the attachment rule. *)
From GC Require Import Base Rust Json Enums Serde TypeExpr RunSerde RunC16.
From GC.Gen Require Import LibTypes.
From Coq Require Import DecimalString DecimalZ.

Lemma decimal_inj a b : decimal a = decimal b -> a = b.
Proof.
  unfold decimal. intros H.
  assert (E : NilEmpty.int_of_string (NilEmpty.string_of_int (Z.to_int a)) =
              NilEmpty.int_of_string (NilEmpty.string_of_int (Z.to_int b))) by (rewrite H; reflexivity).
  rewrite !NilEmpty.isi in E. inversion E as [E']. exact (DecimalZ.to_int_inj _ _ E').
Qed.

Ltac run := lazy -[decimal in_i64 Z.leb Z.ltb].

Lemma helper_str o s : helper_model o (JStr s) = HOk (Some s).
Proof. destruct o; run; reflexivity. Qed.

Lemma helper_int_in o z : in_i64 z = true -> helper_model o (JInt z) = HOk (Some (decimal z)).
Proof. intros H. destruct o; run; rewrite H; reflexivity. Qed.

Lemma helper_int_out o z : in_i64 z = false -> helper_model o (JInt z) = HErr.
Proof. intros H. destruct o; run; rewrite H; reflexivity. Qed.

Lemma helper_null : helper_model true JNull = HOk None /\ helper_model false JNull = HErr.
Proof. split; run; reflexivity. Qed.

Lemma helper_bool o b : helper_model o (JBool b) = HErr.
Proof. destruct o; run; reflexivity. Qed.
Lemma helper_frac o r : helper_model o (JFrac r) = HErr.
Proof. destruct o; run; reflexivity. Qed.
Lemma helper_arr o l : helper_model o (JArr l) = HErr.
Proof. destruct o; run; reflexivity. Qed.
Lemma helper_obj o m : helper_model o (JObj m) = HErr.
Proof. destruct o; run; reflexivity. Qed.

(* the model of the helpers satisfies the property's rule on EVERY JSON value *)
Theorem helper_meets_spec o j : prop_helper (CHelper o j (helper_model o j)) = true.
Proof.
  destruct j as [|b|z|r|s|l|m].
  - destruct o; [rewrite (proj1 helper_null)|rewrite (proj2 helper_null)]; reflexivity.
  - rewrite helper_bool. reflexivity.
  - cbn [prop_helper id_spec]. destruct (in_i64 z) eqn:E.
    + rewrite (helper_int_in o z E). apply String.eqb_refl.
    + rewrite (helper_int_out o z E). reflexivity.
  - rewrite helper_frac. reflexivity.
  - rewrite helper_str. cbn. apply String.eqb_refl.
  - rewrite helper_arr. reflexivity.
  - rewrite helper_obj. reflexivity.
Qed.

(* ---- attachment *)
Lemma id_container_core_only t : gname t = "ID" -> id_container (core t) = true.
Proof.
  induction t as [n|u IH|u IH]; cbn [gname]; intros H.
  - subst n. reflexivity.
  - specialize (IH H). cbn [core id_container]. destruct u; cbn [id_container]; exact IH.
  - exact (IH H).
Qed.

Lemma id_container_core t : gname t = "ID" -> id_container (core t) = true /\ id_container (spec_rust t) = true.
Proof.
  intros H. split; [exact (id_container_core_only t H)|].
  destruct t as [n|u|u]; cbn [spec_rust id_container].
  - exact (id_container_core_only (GNamed n) H).
  - exact (id_container_core_only (GList u) H).
  - exact (id_container_core_only u H).
Qed.

Definition top_option (t : rtype) : bool := match t with ROption _ => true | _ => false end.

Lemma core_not_option t : top_option (core t) = false.
Proof. induction t as [n|u IH|u IH]; cbn [core top_option]; try reflexivity. exact IH. Qed.

Lemma quals_optional_spec t : quals_optional (quals_sdl t) = top_option (spec_rust t).
Proof. destruct t; cbn [quals_sdl quals_optional spec_rust top_option]; try reflexivity. symmetry. apply core_not_option. Qed.

(* for EVERY well-formed ID type expression the attached helper returns exactly the field's
   type, and `default` is present exactly on nullable fields *)
Theorem attach_fits t : wf_gtype t = true -> gname t = "ID" ->
  match attach_model t with
  | (Some h, d) => helper_fits h (spec_rust t) = true /\ d = top_option (spec_rust t)
  | (None, _) => False
  end.
Proof.
  intros Hwf Hn. unfold attach_model. rewrite Hn. cbn [String.eqb Ascii.eqb Bool.eqb].
  change (String.eqb "ID" "ID") with true. cbn iota.
  destruct (quals_indirected (quals_sdl t)) eqn:Hl.
  - split; [|apply quals_optional_spec].
    unfold helper_fits. cbn. exact (proj2 (id_container_core t Hn)).
  - (* no list: t is ID or ID! *)
    destruct t as [n|u|u]; cbn [gname] in Hn.
    + subst n. cbn. split; reflexivity.
    + cbn in Hl. discriminate.
    + destruct u as [n|v|v]; cbn [gname] in Hn.
      * subst n. cbn. split; reflexivity.
      * cbn in Hl. discriminate.
      * cbn in Hwf. discriminate.
Qed.

Theorem attach_only_id t : gname t <> "ID" -> attach_model t = (None, false).
Proof.
  intros H. unfold attach_model. destruct (String.eqb_spec (gname t) "ID"); [contradiction|reflexivity].
Qed.

(* ---- absence: the struct field the generator emits for `x: ID` (nullable) and `x: ID!` *)
Definition id_field (t : gtype) : rfield :=
  mkField "x" (spec_rust t) None false false None (fst (attach_model t)) (snd (attach_model t)).
Definition one_field (t : gtype) (m : list (string * json)) : option rvalue :=
  deser henv FUEL [IStruct "S" [] None [id_field t]] (RNamed "S") (JObj m).

Theorem nullable_id_absent : one_field (GNamed "ID") [] = Some (VStruct [("x", VNone)]).
Proof. vm_compute. reflexivity. Qed.
Theorem nullable_id_null : one_field (GNamed "ID") [("x", JNull)] = Some (VStruct [("x", VNone)]).
Proof. vm_compute. reflexivity. Qed.
Theorem nonnull_id_absent : one_field (GNonNull (GNamed "ID")) [] = None.
Proof. vm_compute. reflexivity. Qed.
Theorem nonnull_id_null : one_field (GNonNull (GNamed "ID")) [("x", JNull)] = None.
Proof. vm_compute. reflexivity. Qed.
Theorem nullable_list_absent : one_field (GList (GNamed "ID")) [] = Some (VStruct [("x", VNone)]).
Proof. vm_compute. reflexivity. Qed.
Theorem list_mixed :
  one_field (GNonNull (GList (GNonNull (GNamed "ID")))) [("x", JArr [JStr "a"; JInt 7; JInt (-3)])]
  = Some (VStruct [("x", VSeq [VStr "a"; VStr "7"; VStr "-3"])]).
Proof. vm_compute. reflexivity. Qed.
