(* Heck.v — ASCII model of heck 0.5 `to_snake_case` / `to_upper_camel_case`
   (heck-0.5.0/src/lib.rs `transform`).  GraphQL names are [_A-Za-z][_0-9A-Za-z]*, so the
   ASCII subset is the whole domain the generator feeds to heck.  MODEL ONLY. *)
From GC Require Import Base.

Definition asc_n (c : ascii) : N := N_of_ascii c.
Definition is_upper (c : ascii) : bool := (65 <=? asc_n c)%N && (asc_n c <=? 90)%N.
Definition is_lower (c : ascii) : bool := (97 <=? asc_n c)%N && (asc_n c <=? 122)%N.
Definition is_digit (c : ascii) : bool := (48 <=? asc_n c)%N && (asc_n c <=? 57)%N.
Definition is_alnum (c : ascii) : bool := is_upper c || is_lower c || is_digit c.
Definition to_lower (c : ascii) : ascii := if is_upper c then ascii_of_N (asc_n c + 32) else c.
Definition to_upper (c : ascii) : ascii := if is_lower c then ascii_of_N (asc_n c - 32) else c.

Fixpoint chars (s : string) : list ascii :=
  match s with EmptyString => [] | String c r => c :: chars r end.
Fixpoint unchars (l : list ascii) : string :=
  match l with [] => EmptyString | c :: r => String c (unchars r) end.

(* s.split(|c| !c.is_alphanumeric()) — keeps empty pieces, which produce no word *)
Fixpoint split_words (cs : list ascii) (cur : list ascii) : list (list ascii) :=
  match cs with
  | [] => [rev cur]
  | c :: r => if is_alnum c then split_words r (c :: cur) else rev cur :: split_words r []
  end.

Inductive wmode := MBoundary | MLower | MUpper.
Definition wmode_eqb (a b : wmode) : bool :=
  match a, b with MBoundary, MBoundary | MLower, MLower | MUpper, MUpper => true | _, _ => false end.

(* the inner `while let Some((i, c)) = char_indices.next()` loop over one piece *)
Fixpoint scan (cs : list ascii) (cur : list ascii) (mode : wmode) : list (list ascii) :=
  match cs with
  | [] => []
  | c :: rest =>
      match rest with
      | [] => [rev (c :: cur)]
      | next :: _ =>
          let next_mode := if is_lower c then MLower else if is_upper c then MUpper else mode in
          if wmode_eqb next_mode MLower && is_upper next then
            rev (c :: cur) :: scan rest [] MBoundary
          else if wmode_eqb mode MUpper && is_upper c && is_lower next then
            rev cur :: scan rest [c] MBoundary
          else scan rest (c :: cur) next_mode
      end
  end.

Definition words (s : string) : list (list ascii) :=
  flat_map (fun w => scan w [] MBoundary) (split_words (chars s) []).

Definition lowercase_w (w : list ascii) : list ascii := map to_lower w.
Definition capitalize_w (w : list ascii) : list ascii :=
  match w with [] => [] | c :: r => to_upper c :: map to_lower r end.

Definition to_snake_case (s : string) : string :=
  join_str "_" (map (fun w => unchars (lowercase_w w)) (words s)).
Definition to_upper_camel_case (s : string) : string :=
  concat_str (map (fun w => unchars (capitalize_w w)) (words s)).

(* Rust identifier shape (ASCII): [_a-zA-Z][_a-zA-Z0-9]*, not a lone "_" *)
Definition is_ident_start (c : ascii) : bool := is_upper c || is_lower c || (asc_n c =? 95)%N.
Definition is_ident_cont (c : ascii) : bool := is_alnum c || (asc_n c =? 95)%N.
(* what proc_macro2::Ident::new accepts without panicking *)
Definition pm2_ident_ok (s : string) : bool :=
  match chars s with
  | [] => false
  | c :: r => is_ident_start c && forallb is_ident_cont r
  end.
(* what rustc accepts as an item / field / variant name *)
Definition ident_shaped (s : string) : bool := pm2_ident_ok s && negb (String.eqb s "_").
