(* Codegen.v — model of the code generator proper:
     codegen.rs (response_for_query, variables, scalar aliases, derives)
     codegen/selection.rs (calculate_selection, ExpandedField::render, ExpandedSelection::render)
     codegen/inputs.rs, codegen/enums.rs (via Enums.v), query.rs (all_used_types, full_path_prefix,
     select_operation), query/fragments.rs (fragment_is_recursive), schema.rs (input recursion),
     generated_module.rs, lib.rs (operation choice).
   The model mirrors the code's push-order so that the emitted item list is predicted exactly.
   MODEL ONLY. *)
From GC Require Import Base Rust TypeExpr Heck Strs Naming Enums Schema Query Attrs Dfs.
From GC.Gen Require Import Keywords.

Record opts := mkOpts {
  o_cli : bool;
  o_operation_name : option string;
  o_struct_name : option string;
  o_variables_derives : option string;
  o_response_derives : option string;
  o_deprecation : option dstrategy;
  o_norm_rust : bool;
  o_custom_scalars_module : option string;
  o_extern_enums : list string;
  o_other_variant : bool;
  o_skip_none : bool;
  o_serde_path : option string;
  o_visibility : option vis;
  o_query_file : option string
}.

Definition tbl := rust_keywords.
Definition kw := keyword_replace tbl.
Definition snake := to_snake_case.
Definition camel := to_upper_camel_case.

Definition norm (o : opts) (n : string) : string := if o_norm_rust o then camel n else n.
(* Normalization::field_type: `ID` and `__`-prefixed names are left alone *)
Definition norm_field_type (o : opts) (n : string) : string :=
  if String.eqb n "ID" || String.prefix "__" n then n else norm o n.

Definition strategy (o : opts) : dstrategy := match o_deprecation o with Some d => d | None => DWarn end.
(* options.serde_path().to_token_stream().to_string(): segments separated by " :: " *)
Definition path_segments (p : string) : list string :=
  filter (fun x => negb (String.eqb x "") && negb (String.eqb x ":")) (map trim (split ":"%char p)).
Definition path_tokens_string (p : string) : string :=
  ((if String.prefix "::" (trim p) then ":: " else "") ++ join_str " :: " (path_segments p))%string.
Definition serde_path_str (o : opts) : string :=
  match o_serde_path o with Some p => path_tokens_string p | None => ":: serde" end.

(* ---------- fragment_is_recursive (query/fragments.rs + Selection::contains_fragment, after the
   repair): the visited-set DFS of Dfs.v over the graph "fragment F spreads fragment H somewhere in
   its selection tree" (spreads listed in the order the code meets them) *)
Fixpoint spreads (x : rsel) : list string :=
  match x with
  | RSpread n => [n]
  | RField _ _ sub | RInline _ sub => flat_map spreads sub
  | RTypename => []
  end.

Fixpoint sel_depth (x : rsel) : nat :=
  match x with
  | RField _ _ sub | RInline _ sub => S (fold_right (fun y acc => Nat.max (sel_depth y) acc) 0 sub)
  | _ => 1
  end.
Definition sels_depth (l : list rsel) : nat := fold_right (fun y acc => Nat.max (sel_depth y) acc) 0 l.

Section Frags.
  Variable frs : list rfrag.

  Definition frag_succs (n : string) : list string :=
    match find_frag frs n with Some fr => flat_map spreads (rf_sel fr) | None => [] end.

  Definition doc_depth : nat := fold_right (fun fr acc => Nat.max (sels_depth (rf_sel fr)) acc) 0 frs.

  Definition fragment_is_recursive (n : string) : bool :=
    match dfs frag_succs (S (List.length frs)) n [] n with Some (b, _) => b | None => false end.
End Frags.

(* ---------- input_is_recursive_without_indirection (schema.rs:398-440): the same DFS over the
   graph "input A has a member of input type B that is not inside a list" *)
Section InputRec.
  Variable s : aschema.

  Definition input_succs (n : string) : list string :=
    match find_input s n with
    | None => []
    | Some inp =>
        flat_map (fun fld =>
          if quals_indirected (quals_sdl (snd fld)) then []
          else match find_kind_sdl s (gname (snd fld)) with
               | Some KInput => [gname (snd fld)]
               | _ => []
               end) (ai_fields inp)
    end.

  Definition input_is_recursive (n : string) : bool :=
    match dfs input_succs (S (List.length (a_inputs s))) n [] n with Some (b, _) => b | None => false end.
End InputRec.

(* ---------- ExpandedField::render *)
Definition render_field (o : opts) (graphql_name : option string) (rust_name field_type : string)
           (quals : list qual) (flatten : bool) (depr : option (option string)) (boxed : bool) : option rfield :=
  let ty0 := match decorate field_type quals with Some t => t | None => RNamed "<double required>" end in
  let ty := if boxed then RBox ty0 else ty0 in
  let is_id := String.eqb field_type "ID" in
  let is_list := existsb (qual_eqb QList) quals in
  let is_req := existsb (qual_eqb QRequired) quals in
  let first_req := match quals with QRequired :: _ => true | _ => false end in
  let hd := if is_id then
              if is_list && negb first_req then (Some "deserialize_id_list", true)
              else if is_list then (Some "deserialize_id_list", false)
              else if is_req then (Some "deserialize_id", false)
              else (Some "deserialize_option_id", true)
            else (None, false) in
  let skip := o_skip_none o && match quals with q :: _ => negb (qual_eqb q QRequired) | [] => false end in
  let rename := match graphql_name with Some g => rename_annotation g rust_name | None => None end in
  match depr, strategy o with
  | Some _, DDeny => None
  | Some msg, DWarn => Some (mkField rust_name ty rename flatten skip (Some msg) (fst hd) (snd hd))
  | _, _ => Some (mkField rust_name ty rename flatten skip None (fst hd) (snd hd))
  end.

(* ---------- calculate_selection, with the code's four push lists (kept reversed) *)
Record ctx := mkCtx {
  c_types : list string;
  c_fields : list (nat * option rfield);      (* struct id, rendered field (None = removed by deny) *)
  c_variants : list (nat * rvariant);
  c_aliases : list (nat * (string * bool))    (* struct id, (fragment name, boxed) *)
}.
Definition ctx0 : ctx := mkCtx [] [] [] [].
Definition push_type (c : ctx) (n : string) : ctx * nat :=
  (mkCtx (n :: c_types c) (c_fields c) (c_variants c) (c_aliases c), List.length (c_types c)).
Definition push_field (c : ctx) (sid : nat) (f : option rfield) : ctx :=
  mkCtx (c_types c) ((sid, f) :: c_fields c) (c_variants c) (c_aliases c).
Definition push_variant (c : ctx) (sid : nat) (v : rvariant) : ctx :=
  mkCtx (c_types c) (c_fields c) ((sid, v) :: c_variants c) (c_aliases c).
Definition push_alias (c : ctx) (sid : nat) (n : string) (boxed : bool) : ctx :=
  mkCtx (c_types c) (c_fields c) (c_variants c) ((sid, (n, boxed)) :: c_aliases c).

Fixpoint fold_opt {A B} (f : B -> A -> option B) (l : list A) (b : B) : option B :=
  match l with [] => Some b | x :: r => match f b x with Some b' => fold_opt f r b' | None => None end end.

Section Calc.
  Variables (s : aschema) (frs : list rfrag) (o : opts).

  Definition frag_on (n : string) : string := match find_frag frs n with Some fr => rf_on fr | None => "" end.
  Definition recursive (n : string) : bool := fragment_is_recursive frs n.

  (* VariantSelection::from_selection *)
  Definition variant_selection (tname : string) (x : rsel) : option string :=
    match x with
    | RInline on _ => Some on
    | RSpread n => if String.eqb (frag_on n) tname then None else Some (frag_on n)
    | _ => None
    end.

  Definition selected_name (alias : option string) (fd : fielddef) : string :=
    match alias with Some a => a | None => fd_name fd end.

  (* the body of calculate_selection, parameterised by the recursive call *)
  Section Body.
    Variable rec : ctx -> list rsel -> nat -> string -> string -> option ctx.
    (* the members contributed by a nested selection set to the SAME struct (calculate_fields) *)
    Variable recf : ctx -> list rsel -> nat -> string -> string -> option ctx.
    (* an object has no variants: every fragment validation accepted under it applies *)
    Definition on_object (tname : string) : bool :=
      match find_kind_sdl s tname with Some KObject => true | _ => false end.

    (* 1. the exhaustive variants of a union / interface *)
    Definition calc_variants (c : ctx) (sels : list rsel) (sid : nat) (tname prefix : string) : option ctx :=
      let variants :=
        match find_kind_sdl s tname with
        | Some KInterface => Some (implementors s tname)
        | Some KUnion => find_union s tname
        | _ => None
        end in
      match variants with
      | None => Some c
      | Some vs =>
          match fold_opt (fun c v =>
                  let mine := filter (fun x => match variant_selection tname x with
                                               | Some t => String.eqb t v | None => false end) sels in
                  match mine with
                  | [] => Some (push_variant c sid (mkVariant v None None false))
                  | _ =>
                      let sname := (prefix ++ "On" ++ v)%string in
                      let c1 := push_variant c sid (mkVariant v None (Some (RNamed sname)) false) in
                      let '(c2, nid) := push_type c1 sname in
                      match mine with
                      | [RSpread n] => Some (push_alias c2 nid n (recursive n))
                      | _ =>
                          fold_opt (fun c x =>
                            match x with
                            | RInline on sub => rec c sub nid v (prefix ++ "On" ++ camel on)%string
                            | RSpread n =>
                                Some (push_field c nid
                                        (render_field o None (kw (snake n)) n [QRequired] true None (recursive n)))
                            | _ => Some c
                            end) mine c2
                      end
                  end) vs c with
          | None => None
          | Some c' =>
              Some (if o_other_variant o then push_variant c' sid (mkVariant "Unknown" None None true) else c')
          end
      end.

    (* 2. the fields *)
    Definition calc_fields (c : ctx) (sels : list rsel) (sid : nat) (tname prefix : string) : option ctx :=
      fold_opt (fun c x =>
        match x with
        | RField alias fd sub =>
            let gn := selected_name alias fd in
            let rust := kw (snake gn) in
            let tn := gname (fd_type fd) in
            let quals := quals_sdl (fd_type fd) in
            match find_kind_sdl s tn with
            | Some KEnum | Some KScalar =>
                Some (push_field c sid (render_field o (Some gn) rust (norm_field_type o tn) quals false (fd_deprecated fd) false))
            | Some KObject | Some KInterface | Some KUnion =>
                let sname := (prefix ++ camel gn)%string in
                let c1 := push_field c sid (render_field o (Some gn) rust sname quals false (fd_deprecated fd) false) in
                let '(c2, nid) := push_type c1 sname in
                rec c2 sub nid tn sname
            | _ => Some c      (* unreachable!("field selection on input type"): resolve never binds such a field *)
            end
        | RTypename => Some c
        | RInline on sub =>
            if on_object tname then recf c sub sid tname (prefix ++ "On" ++ camel on)%string else Some c
        | RSpread n =>
            if String.eqb (frag_on n) tname || on_object tname
            then Some (push_field c sid (render_field o None (kw (snake n)) n [QRequired] true None (recursive n)))
            else Some c
        end) sels c.

    Definition calc_body (c : ctx) (sels : list rsel) (sid : nat) (tname prefix : string) : option ctx :=
      match sels with
      | [RSpread n] => Some (push_alias c sid n (recursive n))
      | _ =>
          match calc_variants c sels sid tname prefix with
          | None => None
          | Some c1 => calc_fields c1 sels sid tname prefix
          end
      end.
  End Body.

  Fixpoint calc (fuel : nat) (c : ctx) (sels : list rsel) (sid : nat) (tname prefix : string) {struct fuel}
    : option ctx :=
    match fuel with
    | O => None
    | S f => calc_body (calc f) (calcf f) c sels sid tname prefix
    end
  with calcf (fuel : nat) (c : ctx) (sels : list rsel) (sid : nat) (tname prefix : string) {struct fuel}
    : option ctx :=
    match fuel with
    | O => None
    | S f => calc_fields (calc f) (calcf f) c sels sid tname prefix
    end.

  Definition calc_fuel (sels : list rsel) : nat := S (S (sels_depth sels)).

  (* ExpandedSelection::render *)
  Definition response_derives : list string := all_response_derives (o_response_derives o).
  Definition variable_derives : list string := all_variable_derives (o_variables_derives o).

  Definition render_ctx (c : ctx) : list ritem :=
    let types := rev (c_types c) in
    let fields := rev (c_fields c) in
    let variants := rev (c_variants c) in
    let aliases := rev (c_aliases c) in
    flat_map (fun p =>
      let '(idx, name) := p in
      match find (fun a => Nat.eqb (fst a) idx) aliases with
      | Some (_, (fn, boxed)) => [IAlias name (if boxed then RBox (RNamed fn) else RNamed fn)]
      | None =>
          let fs := flat_map (fun e => if Nat.eqb (fst e) idx then match snd e with Some x => [x] | None => [] end else []) fields in
          let vs := flat_map (fun e => if Nat.eqb (fst e) idx then [snd e] else []) variants in
          match fs, vs with
          | [], _ :: _ => [ITagEnum name response_derives (Some (serde_path_str o)) "__typename" vs]
          | _, [] => [IStruct name response_derives (Some (serde_path_str o)) fs]
          | _, _ =>
              let en := (name ++ "On")%string in
              [IStruct name response_derives (Some (serde_path_str o))
                       (fs ++ [mkField "on" (RNamed en) None true false None None false]);
               ITagEnum en response_derives (Some (serde_path_str o)) "__typename" vs]
          end
      end) (combine (seq 0 (List.length types)) types).

  Definition expand_root (root_name : string) (sels : list rsel) (tname prefix : string) : option (list ritem) :=
    let '(c, sid) := push_type ctx0 root_name in
    option_map render_ctx (calc (calc_fuel sels) c sels sid tname prefix).

  (* ---------- used types (query.rs all_used_types, query/selection.rs collect_used_types,
     schema.rs used_input_ids_recursive) *)
  Record used := mkUsed { u_types : list string; u_frags : list string }.

  Fixpoint collect (fuel : nat) (u : used) (l : list rsel) {struct fuel} : option used :=
    match fuel with
    | O => None
    | S f =>
        fold_opt (fun u x =>
          match x with
          | RField _ fd sub => collect f (mkUsed (gname (fd_type fd) :: u_types u) (u_frags u)) sub
          | RInline on sub => collect f (mkUsed (on :: u_types u) (u_frags u)) sub
          | RSpread n =>
              if mem_str n (u_frags u) then Some u
              else match find_frag frs n with
                   | Some fr => collect f (mkUsed (u_types u) (n :: u_frags u)) (rf_sel fr)
                   | None => Some (mkUsed (u_types u) (n :: u_frags u))
                   end
          | RTypename => Some u
          end) l u
    end.

  Fixpoint used_inputs (fuel : nat) (types : list string) (cur : string) {struct fuel} : option (list string) :=
    match fuel with
    | O => None
    | S f =>
        match find_input s cur with
        | None => Some types
        | Some inp =>
            fold_opt (fun types fld =>
              let tn := gname (snd fld) in
              match find_kind_sdl s tn with
              | Some KInput => if mem_str tn types then Some types else used_inputs f (tn :: types) tn
              | Some KEnum | Some KScalar => Some (tn :: types)
              | _ => Some types
              end) (ai_fields inp) types
        end
    end.

  Definition collect_fuel (sels : list rsel) : nat := S ((S (List.length frs)) * (S (S (Nat.max (sels_depth sels) (doc_depth frs))))).

  Definition all_used (op : rop) : option used :=
    match collect (collect_fuel (ro_sel op)) (mkUsed [] []) (ro_sel op) with
    | None => None
    | Some u =>
        option_map (fun ts => mkUsed ts (u_frags u))
          (fold_opt (fun types v =>
             let tn := gname (vd_type v) in
             match find_kind_sdl s tn with
             | Some KInput => used_inputs (S (S (List.length (a_inputs s)))) (tn :: types) tn
             | Some KScalar | Some KEnum => Some (tn :: types)
             | _ => Some types
             end) (ro_vars op) (u_types u))
    end.

  (* ---------- the items of one operation's module *)
  Definition split_path (p : string) : list string :=
    (* "a::b" or ":: a :: b" as printed by quote: segments, leading "" for a leading `::` *)
    filter (fun x => negb (String.eqb x ":") ) (map trim (split ":"%char p)).

  Definition scalar_items (u : used) : list ritem :=
    flat_map (fun n =>
      if mem_str n (u_types u) && negb (mem_str n default_scalars) &&
         match find_kind_sdl s n with Some KScalar => true | _ => false end
      then
        let id := norm o n in
        [IAliasPath id (match o_custom_scalars_module o with
                        | Some m => filter (fun x => negb (String.eqb x "")) (split_path m) ++ [id]
                        | None => ["super"; id]
                        end)]
      else []) (skipn 5 (a_scalars s)).

  Definition enum_items (u : used) : list ritem :=
    flat_map (fun e =>
      if mem_str (fst e) (u_types u) && negb (mem_str (fst e) (o_extern_enums o)) &&
         match find_kind_sdl s (fst e) with Some KEnum => true | _ => false end
      then [enum_item tbl (o_norm_rust o) camel (enum_derives response_derives variable_derives) (fst e) (snd e)]
      else []) (a_enums s).

  Definition input_field_type (o : opts) (ty : gtype) (extra_required : bool) : rtype :=
    let tn := gname ty in
    let quals := (if extra_required then [QRequired] else []) ++ quals_sdl ty in
    let t0 := match decorate (norm_field_type o tn) quals with Some t => t | None => RNamed "<double required>" end in
    match find_kind_sdl s tn with
    | Some KInput => if input_is_recursive s tn then RBox t0 else t0
    | _ => t0
    end.

  Definition input_item (inp : ainput) : ritem :=
    let name := kw (norm o (ai_name inp)) in
    if ai_one_of inp then
      IExtEnum name variable_derives (Some (serde_path_str o))
        (map (fun fld =>
                let p := oneof_names tbl camel (fst fld) in
                mkVariant (fst p) (snd p) (Some (input_field_type o (snd fld) true)) false) (ai_fields inp))
    else
      IStruct name variable_derives (Some (serde_path_str o))
        (map (fun fld =>
                let p := field_names tbl snake (fst fld) in
                mkField (fst p) (input_field_type o (snd fld) false) (snd p) false
                        (o_skip_none o && quals_optional (quals_sdl (snd fld))) None None false) (ai_fields inp)).

  Definition input_items (u : used) : list ritem :=
    flat_map (fun inp => if mem_str (ai_name inp) (u_types u) &&
                            match find_kind_sdl s (ai_name inp) with Some KInput => true | _ => false end
                         then [input_item inp] else []) (a_inputs s).

  Definition variables_item (op : rop) : ritem :=
    match ro_vars op with
    | [] => IUnit "Variables" variable_derives (Some (serde_path_str o))
    | vars =>
        IStruct "Variables" variable_derives (Some (serde_path_str o))
          (map (fun v =>
                  let p := field_names tbl snake (vd_name v) in
                  let quals := quals_sdl (vd_type v) in
                  let tyname := kw (norm_field_type o (gname (vd_type v))) in
                  mkField (fst p)
                          (match decorate tyname quals with Some t => t | None => RNamed "<double required>" end)
                          (snd p) false
                          (o_skip_none o && negb (match quals with QRequired :: _ => true | _ => false end))
                          None None false) vars)
    end.

  Definition fragment_items (u : used) : option (list ritem) :=
    fold_opt (fun acc fr =>
      if mem_str (rf_name fr) (u_frags u)
      then option_map (fun its => acc ++ its) (expand_root (rf_name fr) (rf_sel fr) (rf_on fr) (camel (rf_name fr)))
      else Some acc) frs [].

  Definition builtin_alias_items : list ritem :=
    [IAlias "Boolean" (RNamed "bool"); IAlias "Float" (RNamed "f64"); IAlias "Int" (RNamed "i64"); IAlias "ID" (RNamed "String")].

  (* decorate_type panics on a doubled `!`: the only way to get one past the parser is an @oneOf
     member declared non-null (generate_enum prepends a Required qualifier) *)
  Definition double_required (u : used) : bool :=
    existsb (fun inp => mem_str (ai_name inp) (u_types u) && ai_one_of inp &&
                        match find_kind_sdl s (ai_name inp) with Some KInput => true | _ => false end &&
                        existsb (fun fld => match snd fld with GNonNull _ => true | _ => false end) (ai_fields inp))
            (a_inputs s).

  Definition operation_items (op : rop) : option (list ritem) :=
    match all_used op with
    | None => None
    | Some u =>
        match fragment_items u, expand_root "ResponseData" (ro_sel op) (ro_root op) (camel (ro_name op)) with
        | Some frags, Some resp =>
            Some (builtin_alias_items ++ scalar_items u ++ enum_items u ++ input_items u ++
                  [variables_item op] ++ frags ++ resp)
        | _, _ => None
        end
    end.
End Calc.

(* ---------- module skeleton (generated_module.rs) and operation choice (lib.rs) *)
Definition module_vis (o : opts) : vis := match o_visibility o with Some v => v | None => VInherited end.

Definition select_operation (o : opts) (ops : list rop) (name : string) : option rop :=
  find (fun op => String.eqb (norm o (ro_name op)) name) ops.

Definition module_of (s : aschema) (q : rquery) (o : opts) (query_text : string) (op_name : string) : result rmodule :=
  (* GeneratedModule::root re-selects by NORMALISED name *)
  match select_operation o (rq_ops q) (norm o op_name) with
  | None => Err "Could not find an operation named ... in the query document."
  | Some op =>
      match operation_items s (rq_frags q) o op with
      | None => Panic "model out of fuel"
      | Some items =>
          if match all_used s (rq_frags q) op with Some u => double_required s u | None => false end
          then Panic "double required annotation" else
          let ident := norm o op_name in
          let sp := filter (fun x => negb (String.eqb x "")) (split_path (serde_path_str o)) in
          let sp := if String.prefix "::" (trim (serde_path_str o)) then "" :: sp else sp in
          Ok (mkModule
                (if o_cli o then Some (ident, module_vis o) else None)
                (snake op_name) (module_vis o) op_name query_text (o_query_file o)
                [["std"; "result"; "Result"]; sp ++ ["Serialize"]; sp ++ ["Deserialize"]; ["super"; "*"]]
                items ident
                [("variables", "variables"); ("query", (snake op_name ++ "::QUERY")%string);
                 ("operation_name", (snake op_name ++ "::OPERATION_NAME")%string);
                 ("type Variables", (snake op_name ++ "::Variables")%string);
                 ("type ResponseData", (snake op_name ++ "::ResponseData")%string)])
      end
  end.

Fixpoint map_result {A B} (f : A -> result B) (l : list A) : result (list B) :=
  match l with
  | [] => Ok []
  | x :: r => do y <- f x; do ys <- map_result f r; Ok (y :: ys)
  end.

(* generate_module_token_stream_inner *)
Definition generate (s : aschema) (doc : list qdef) (o : opts) (query_text : string) : result (list rmodule) :=
  do q <- resolve s doc;
  let selected := match o_operation_name o with
                  | Some n => option_map (fun op => [op]) (select_operation o (rq_ops q) n)
                  | None => None
                  end in
  match selected, o_cli o with
  | Some ops, _ => map_result (fun op => module_of s q o query_text (ro_name op)) ops
  | None, true => map_result (fun op => module_of s q o query_text (ro_name op)) (rq_ops q)
  | None, false => Err "The struct name does not match any defined operation in the query file."
  end.
