(* Conform.v — SPECIFICATION, independent of the generator: which `data` payloads a spec-compliant
   server can return for a selection set (GraphQL spec, section 6: CollectFields / CompleteValue),
   stated on the RAW query AST and the abstract schema; and the normal form under which C01 compares
   a payload with its re-serialisation.  SPEC ONLY. *)
From GC Require Import Base Rust Json TypeExpr Schema Query Serde.

(* ---------- type expressions: null only at nullable positions, arrays exactly at list positions *)
Fixpoint ctype (leaf : json -> bool) (nullable : bool) (t : gtype) (j : json) {struct t} : bool :=
  match t with
  | GNonNull u => ctype leaf false u j
  | GNamed _ => if is_null j then nullable else leaf j
  | GList u =>
      if is_null j then nullable
      else match j with JArr l => forallb (ctype leaf true u) l | _ => false end
  end.

Section Spec.
  Variable s : aschema.
  (* named fragments of the document: name, type condition, selection set *)
  Variable frags : list (string * (string * list sel)).

  Definition object_fields (t : string) : list fielddef :=
    match find_kind_sdl s t with
    | Some KObject => match find_object s t with Some o => ao_fields o | None => [] end
    | Some KInterface => match find_interface s t with Some fs => fs | None => [] end
    | _ => []
    end.

  (* the concrete object types a value at a position of static type t can have *)
  Definition possible (t : string) : list string :=
    match find_kind_sdl s t with
    | Some KObject => [t]
    | Some KInterface => implementors s t
    | Some KUnion => match find_union s t with Some ms => ms | None => [] end
    | _ => []
    end.

  (* DoesFragmentTypeApply *)
  Definition applies (rt cond : string) : bool := mem_str rt (possible cond).

  Definition response_key (alias : option string) (name : string) : string :=
    match alias with Some a => a | None => name end.

  (* CollectFields for runtime type rt: (response key, (field name, sub-selection)) in document
     order; a named fragment is visited once per selection set (visitedFragments). *)
  Fixpoint collect_fields (fuel : nat) (rt : string) (visited : list string) (l : list sel) {struct fuel}
    : list (string * (string * list sel)) * list string :=
    match fuel with
    | O => ([], visited)
    | S f =>
        let one :=
          fix one (x : sel) (visited : list string) {struct x} : list (string * (string * list sel)) * list string :=
            match x with
            | SField alias n sub => ([(response_key alias n, (n, sub))], visited)
            | SInline on sub =>
                if match on with Some c => applies rt c | None => true end
                then (fix many (l : list sel) (visited : list string) :=
                        match l with
                        | [] => ([], visited)
                        | y :: r => let '(a, v1) := one y visited in
                                    let '(b, v2) := many r v1 in (a ++ b, v2)
                        end) sub visited
                else ([], visited)
            | SSpread n =>
                if mem_str n visited then ([], visited)
                else match assoc n frags with
                     | Some (c, fsel) =>
                         if applies rt c then collect_fields f rt (n :: visited) fsel
                         else ([], n :: visited)
                     | None => ([], n :: visited)
                     end
            end in
        (fix many (l : list sel) (visited : list string) :=
           match l with
           | [] => ([], visited)
           | y :: r => let '(a, v1) := one y visited in
                       let '(b, v2) := many r v1 in (a ++ b, v2)
           end) l visited
    end.

  (* fields with the same response key are merged: their sub-selections are concatenated *)
  Fixpoint merge_into (acc : list (string * (string * list sel))) (k n : string) (sub : list sel)
    : list (string * (string * list sel)) :=
    match acc with
    | [] => [(k, (n, sub))]
    | (k', (n', sub')) :: r =>
        if String.eqb k k' then (k', (n', sub' ++ sub)) :: r else (k', (n', sub')) :: merge_into r k n sub
    end.
  Definition merge_fields (l : list (string * (string * list sel))) : list (string * (string * list sel)) :=
    fold_left (fun acc e => merge_into acc (fst e) (fst (snd e)) (snd (snd e))) l [].

  Definition collected (rt : string) (sels : list sel) : list (string * (string * list sel)) :=
    merge_fields (fst (collect_fields (S (List.length frags)) rt [] sels)).

  Definition field_def (rt name : string) : option fielddef :=
    find (fun f => String.eqb (fd_name f) name) (object_fields rt).

  (* leaf values by kind of the named type; composite kinds go through `obj` *)
  Definition scalar_leaf (n : string) (j : json) : bool :=
    if String.eqb n "Int" then match j with JInt z => in_i32 z | _ => false end
    else if String.eqb n "Float" then match j with JInt _ | JFrac _ => true | _ => false end
    else if String.eqb n "String" then match j with JStr _ => true | _ => false end
    else if String.eqb n "Boolean" then match j with JBool _ => true | _ => false end
    else if String.eqb n "ID" then match j with JStr _ => true | JInt z => in_i64 z | _ => false end
    else negb (is_null j).                       (* custom scalar: any non-null value *)

  (* what a value at a position of named type tn with sub-selection sub must be; `rec` judges the
     objects below *)
  Definition leaf_of (rec : string -> list sel -> list (string * json) -> bool) (tn : string) (sub : list sel)
    : json -> bool :=
    match find_kind_sdl s tn with
    | Some KScalar => scalar_leaf tn
    | Some KEnum => fun j => match j, find_enum s tn with
                             | JStr x, Some vs => mem_str x vs | _, _ => false end
    | Some KObject | Some KInterface | Some KUnion =>
        (* a composite field needs a sub-selection (else the document is invalid and nothing conforms) *)
        fun j => match j, sub with
                 | JObj m', _ :: _ => existsb (fun rt' => rec rt' sub m') (possible tn)
                 | _, _ => false end
    | _ => fun _ => false
    end.

  (* one collected field against the object's entries *)
  Definition field_ok (rec : string -> list sel -> list (string * json) -> bool) (rt : string)
             (m : list (string * json)) (fl : string * (string * list sel)) : bool :=
    let '(k, (n, sub)) := fl in
    match obj_get k m with
    | None => false
    | Some v =>
        if String.eqb n "__typename" then json_eqb v (JStr rt)
        else match field_def rt n with
             | None => false
             | Some fd => ctype (leaf_of rec (gname (fd_type fd)) sub) true (fd_type fd) v
             end
    end.

  (* the payload of a selection set executed on an object of runtime type rt; fuel bounds the
     nesting of objects (S (jdepth payload) suffices) *)
  Fixpoint cobj (fuel : nat) (rt : string) (sels : list sel) (m : list (string * json)) {struct fuel} : bool :=
    match fuel with
    | O => false
    | S f =>
        let fields := collected rt sels in
        nodup_str (map fst m) &&
        forallb (fun e => mem_str (fst e) (map fst fields)) m &&
        forallb (field_ok (cobj f) rt m) fields
    end.

  (* ---------- the class "field merging is needed": somewhere in the operation a response key is
     collected more than once for some runtime type (directly, through fragments, or both).  The
     GraphQL spec merges such fields; the generator has no merging.  Out of fuel (recursive
     fragments) counts as free, so that nothing is excused by exhaustion. *)
  Fixpoint merge_free (fuel : nat) (static : string) (sels : list sel) {struct fuel} : bool :=
    match fuel with
    | O => true
    | S f =>
        forallb (fun rt =>
          let raw := fst (collect_fields (S (List.length frags)) rt [] sels) in
          nodup_str (map fst raw) &&
          forallb (fun fl =>
            let '(_, (n, sub)) := fl in
            if String.eqb n "__typename" then true
            else match field_def rt n with
                 | Some fd =>
                     match find_kind_sdl s (gname (fd_type fd)) with
                     | Some KObject | Some KInterface | Some KUnion => merge_free f (gname (fd_type fd)) sub
                     | _ => true
                     end
                 | None => true
                 end) raw) (possible static)
    end.

  (* the runtime type of an object, for normalisation only: its `__typename` when that is a possible
     type, else the first possible type that fits, else the first possible type *)
  Definition runtime_type (fuel : nat) (tn : string) (sub : list sel) (m : list (string * json)) : option string :=
    match obj_get "__typename" m with
    | Some (JStr x) => if mem_str x (possible tn) then Some x else hd_error (possible tn)
    | _ => match find (fun rt' => cobj fuel rt' sub m) (possible tn) with
           | Some x => Some x
           | None => hd_error (possible tn)
           end
    end.

  (* ---------- the normal form under which a payload and its re-serialisation are compared:
     keys sorted (canon, later); null members dropped (null = absent at nullable positions);
     integer IDs as decimal strings; `__typename` dropped where the selection's static type is a
     concrete object.  Everything else is kept, so any other difference survives. *)
  Fixpoint ntype (leaf : json -> json) (t : gtype) (j : json) {struct t} : json :=
    match t with
    | GNonNull u => ntype leaf u j
    | GNamed _ => if is_null j then j else leaf j
    | GList u => match j with JArr l => JArr (map (ntype leaf u) l) | _ => j end
    end.

  Fixpoint nobj (fuel : nat) (static rt : string) (sels : list sel) (m : list (string * json)) {struct fuel}
    : list (string * json) :=
    match fuel with
    | O => m
    | S f =>
        let fields := collected rt sels in
        let concrete := match find_kind_sdl s static with Some KObject => true | _ => false end in
        flat_map (fun e =>
          let '(k, v) := e in
          if is_null v then []
          else match assoc k fields with
               | None => [(k, v)]
               | Some (n, sub) =>
                   if String.eqb n "__typename" then (if concrete then [] else [(k, v)])
                   else match field_def rt n with
                        | None => [(k, v)]
                        | Some fd =>
                            let tn := gname (fd_type fd) in
                            let leaf :=
                              match find_kind_sdl s tn with
                              | Some KScalar =>
                                  if String.eqb tn "ID"
                                  then fun j => match j with JInt z => JStr (decimal z) | _ => j end
                                  else fun j => j
                              | Some KObject | Some KInterface | Some KUnion =>
                                  fun j => match j with
                                           | JObj m' =>
                                               match runtime_type f tn sub m' with
                                               | Some rt' => JObj (nobj f tn rt' sub m')
                                               | None => j
                                               end
                                           | _ => j end
                              | _ => fun j => j
                              end in
                            [(k, ntype leaf (fd_type fd) v)]
                        end
               end) m
    end.
End Spec.

Fixpoint jdepth (j : json) : nat :=
  match j with
  | JArr l => S (fold_right (fun x acc => Nat.max (jdepth x) acc) 0 l)
  | JObj m => S (fold_right (fun e acc => Nat.max (jdepth (snd e)) acc) 0 m)
  | _ => 1
  end.

Definition frag_defs (doc : list qdef) : list (string * (string * list sel)) :=
  flat_map (fun d => match d with QFrag n on sels => [(n, (on, sels))] | _ => [] end) doc.

Definition find_op (doc : list qdef) (name : string) : option (opkind * list vardef * list sel) :=
  match find (fun d => match d with QOp _ (Some n) _ _ => String.eqb n name | _ => false end) doc with
  | Some (QOp k _ vars sels) => Some (k, vars, sels)
  | _ => None
  end.

Definition root_type (s : aschema) (k : opkind) : option string :=
  match k with OQuery => a_query s | OMutation => a_mutation s | OSubscription => a_subscription s end.

(* a `data` payload conforms to operation `op` of `doc` *)
Definition conforms (s : aschema) (doc : list qdef) (op : string) (data : json) : bool :=
  match find_op doc op with
  | Some (k, _, sels) =>
      match root_type s k, data with
      | Some root, JObj m => cobj s (frag_defs doc) (S (jdepth data)) root sels m
      | _, _ => false
      end
  | None => false
  end.

Fixpoint sel_size (x : sel) : nat :=
  match x with
  | SField _ _ sub | SInline _ sub => S (fold_right (fun y acc => sel_size y + acc) 0 sub)
  | SSpread _ => 1
  end.

Definition needs_merging (s : aschema) (doc : list qdef) (op : string) : bool :=
  match find_op doc op with
  | Some (k, _, sels) =>
      match root_type s k with
      | Some root =>
          let fuel := S (fold_right (fun d acc => match d with
                                                  | QOp _ _ _ l | QFrag _ _ l | QAnon l => fold_right (fun y a => sel_size y + a) 0 l
                                                  end + acc) 0 doc) in
          negb (merge_free s (frag_defs doc) fuel root sels)
      | None => false
      end
  | None => false
  end.

Definition normal_form (s : aschema) (doc : list qdef) (op : string) (data : json) : json :=
  match find_op doc op with
  | Some (k, _, sels) =>
      match root_type s k, data with
      | Some root, JObj m => canon (JObj (nobj s (frag_defs doc) (S (jdepth data)) root root sels m))
      | _, _ => canon data
      end
  | None => canon data
  end.

(* C01's comparison *)
Definition lossless (s : aschema) (doc : list qdef) (op : string) (payload reser : json) : bool :=
  json_eqb (normal_form s doc op payload) (normal_form s doc op reser).
